"""C02 - simple-type validation and decoding follow XSD datatype semantics.

Engine B (z3, regenerated from the live tree on every run):
  * range obligations: the validator functions of xmlschema/validators/helpers.py and the bound facets attached to the
    integer built-ins are translated from their AST into z3 integer terms; for EVERY integer value (no bound) the
    conjunction accepts exactly the XSD value range of the type.
  * lexical obligations: the compiled pattern objects the live type carries (type.patterns, elementpath datatype
    patterns reached through type.to_python) are translated (sre parse tree -> z3 Re) and compared, in both
    directions, with the XSD production of oracles/xsd_lexical.py for all strings up to a length bound.
Engine A (CrossHair): whitespace normalisation on a symbolic string; facet validators on symbolic values / bounds.
"""
import ast
import inspect
import textwrap

import xmlschema
from xmlschema.validators.exceptions import XMLSchemaValidationError

from engine import smt
from engine.known import open_regions
from oracles import xsd_lexical as X

ID = "C02"
XSD = '{http://www.w3.org/2001/XMLSchema}'
CFG = {"mode": "collapse", "maxlen": 3, "facet": "minInclusive", "alpha": None}
_SCH = {}


def schema(version):
    if version not in _SCH:
        cls = xmlschema.XMLSchema10 if version == '1.0' else xmlschema.XMLSchema11
        _SCH[version] = cls('<xs:schema xmlns:xs="http://www.w3.org/2001/XMLSchema"><xs:element name="x" type="xs:string"/></xs:schema>')
    return _SCH[version]


def btype(version, name):
    return schema(version).maps.types[XSD + name]


def configure(cfg):
    if cfg.get("seq"):
        CFG.update(cfg)
        _seq_schema(CFG["version"])
        return
    CFG.update(cfg)
    schema('1.0')
    schema('1.1')
    _facet_types()
    _digit_types()


# ---------------------------------------------------------------- Engine B: value ranges (all integers)

def _accept_from_function(fn, v, selfenv=None):
    """z3 BoolRef 'fn(v) does not raise', for functions of the shape  [try:] if <cond>: raise ...  (else fall through)"""
    src = textwrap.dedent(inspect.getsource(fn))
    fdef = ast.parse(src).body[0]
    body = [st for st in fdef.body if not (isinstance(st, ast.Expr) and isinstance(getattr(st, 'value', None), ast.Constant))]
    if len(body) == 1 and isinstance(body[0], ast.Try):
        body = body[0].body
    if len(body) != 1 or not isinstance(body[0], ast.If) or body[0].orelse:
        raise smt.Unsupported("validator %s is not a single guarded raise" % fn.__qualname__)
    iff = body[0]
    if not any(isinstance(n, ast.Raise) for n in ast.walk(iff)):
        raise smt.Unsupported("validator %s: guarded statement does not raise" % fn.__qualname__)
    argname = fdef.args.args[-1].arg
    env = {argname: v}
    for k, val in (selfenv or {}).items():
        if not isinstance(val, int):
            env['__self_' + k] = val
    test = _subst_self(iff.test, selfenv or {})
    return smt.z3.Not(smt.truthy(smt.expr_to_z3(test, env)))


def _subst_self(node, selfenv):
    """replace attribute reads self.<name> by the live constant values (or by names bound to z3 terms)"""
    class T(ast.NodeTransformer):
        def visit_Attribute(self, n):
            if isinstance(n.value, ast.Name) and n.value.id == 'self' and n.attr in selfenv:
                val = selfenv[n.attr]
                if isinstance(val, int):
                    return ast.copy_location(ast.Constant(val), n)
                return ast.copy_location(ast.Name('__self_' + n.attr, ast.Load()), n)
            return n
    return T().visit(node)


def smt_range(config):
    z3 = smt.z3
    name, version = config["type"], config["version"]
    t = btype(version, name)
    v = z3.Int('v')
    funcs = []
    try:
        accept = []
        for val in t.validators:
            if inspect.isfunction(val):
                accept.append(_accept_from_function(val, v))
                funcs.append(val.__module__ + '.' + val.__qualname__)
            else:       # a facet object: translate its __call__ with the live self.value
                if not isinstance(val.value, int):
                    raise smt.Unsupported("facet value %r" % (val.value,))
                accept.append(_accept_from_function(type(val).__call__, v, {"value": int(val.value)}))
                funcs.append(type(val).__module__ + '.' + type(val).__qualname__ + '.__call__')
        # validators of the base chain are applied by XsdAtomicBuiltin only for the type itself; the bound facets of
        # the builtin table are part of t.validators.  Inherited integer-ness comes from to_python (int).
        if t.to_python is not int:
            raise smt.Unsupported("to_python of xs:%s is %r, expected int" % (name, t.to_python))
    except smt.Unsupported as e:
        return {"status": "unknown", "error": "translator refused: %s" % e, "queries": 0}
    lo, hi = X.INT_RANGES[name]
    spec = z3.And(*( [v >= lo] if lo is not None else [] ) + ([v <= hi] if hi is not None else [] )) if (lo is not None or hi is not None) else z3.BoolVal(True)
    impl = z3.And(*accept) if accept else z3.BoolVal(True)
    ses = smt.Session()
    r0, _ = ses.check(impl)       # vacuity: some value is accepted
    r, m = ses.check(impl != spec)
    out = {"queries": ses.queries, "solver_s": round(ses.seconds, 4), "functions": funcs,
           "samples": [{"type": name, "version": version, "validators": funcs, "spec_range": [lo, hi]}]}
    if r0 != 'sat':
        out.update(status="error", error="vacuous: no integer is accepted")
    elif r == 'unsat':
        out["status"] = "unsat"
    elif r == 'sat':
        val = m.eval(v, model_completion=True).as_long()
        out["status"] = "sat"
        out["cex"] = [{"args": {"__kw__": {"type": name, "version": version, "text": str(val)}}, "replay_fn": "replay_value",
                       "message": "value %d: validators of xs:%s %s it, XSD range [%s, %s]" % (
                           val, name, "accept" if z3.is_true(m.eval(impl, model_completion=True)) else "reject", lo, hi)}]
    else:
        out["status"] = "unknown"
    return out


def smt_facet(config):
    """for ALL integer values v and bounds b (resp. all strings up to a length and all lengths b): the facet's
    __call__, translated from its AST with self.value = b, accepts exactly when the XSD facet definition holds"""
    z3 = smt.z3
    fname = config["facet"]
    t = _facet_types()[fname]
    f = _the_facet(t)
    b = z3.Int('b')
    try:
        call = type(f).__call__
        if "self.validate(value)" in inspect.getsource(call):
            call = f.validate.__func__          # XsdFacet.__call__ delegates to the validator bound at parse time
        if fname in ("len", "minL", "maxL"):
            x = z3.String('x')
            acc = _accept_from_function(call, x, {"value": b})
            n = z3.Length(x)
            ref = {"len": n == b, "minL": n >= b, "maxL": n <= b}[fname]
            dom = [z3.Length(x) <= config.get("maxlen", 8), b >= 0]
        else:
            v = z3.Int('v')
            acc = _accept_from_function(call, v, {"value": b})
            ref = {"minI": v >= b, "minE": v > b, "maxI": v <= b, "maxE": v < b}[fname]
            dom = []
    except smt.Unsupported as e:
        return {"status": "unknown", "error": "translator refused: %s" % e, "queries": 0}
    ses = smt.Session()
    r0, _ = ses.check(*dom, acc)
    r, m = ses.check(*dom, acc != ref)
    out = {"queries": ses.queries, "solver_s": round(ses.seconds, 4), "functions": [call.__module__ + '.' + call.__qualname__],
           "samples": [{"facet": fname, "class": type(f).__name__}]}
    if r0 != 'sat':
        out.update(status="error", error="vacuous")
    elif r == 'unsat':
        out["status"] = "unsat"
    elif r == 'sat':
        bv = m.eval(b, model_completion=True).as_long()
        if fname in ("len", "minL", "maxL"):
            val = _z3str(m.eval(x, model_completion=True).as_string())
            out["cex"] = [{"args": {"__kw__": {"s": val, "b": bv}}, "replay_fn": "h_facet_str", "config": {"facet": fname}, "message": "facet %s value %r bound %d" % (fname, val, bv)}]
        else:
            val = m.eval(v, model_completion=True).as_long()
            out["cex"] = [{"args": {"__kw__": {"v": val, "b": bv}}, "replay_fn": "h_facet_int", "config": {"facet": fname}, "message": "facet %s value %d bound %d" % (fname, val, bv)}]
        out["status"] = "sat"
    else:
        out["status"] = "unknown"
    return out


def replay_value(type, version, text, want=None) -> bool:
    """plain interpreter through the public API: True iff is_valid agrees with the reference for this text"""
    import re
    s = _elem_schema(version)
    got = s.is_valid('<e_%s>%s</e_%s>' % (type, _xml_escape(text), type))
    if want is None:
        if type in X.INT_RANGES:
            lo, hi = X.INT_RANGES[type]
            norm = X.normalize('collapse', text)
            want = re.fullmatch(X.INTEGER, norm) is not None
            if want:
                val = int(norm)
                want = (lo is None or val >= lo) and (hi is None or val <= hi)
        else:
            raise ValueError("no reference for type %s" % type)
    return got == want


def _xml_escape(t):
    return t.replace('&', '&amp;').replace('<', '&lt;').replace('>', '&gt;')


_ES = {}


def _elem_schema(version):
    if version not in _ES:
        cls = xmlschema.XMLSchema10 if version == '1.0' else xmlschema.XMLSchema11
        names = sorted(set(list(X.INT_RANGES) + ['language', 'Name', 'NCName', 'NMTOKEN', 'hexBinary', 'boolean', 'decimal', 'float', 'double',
                                                 'gDay', 'gMonth', 'gMonthDay', 'gYear', 'gYearMonth', 'date', 'time', 'dateTime', 'duration',
                                                 'ID', 'token', 'string', 'normalizedString']))
        decl = ''.join('<xs:element name="e_%s" type="xs:%s"/>' % (n, n) for n in names)
        _ES[version] = cls('<xs:schema xmlns:xs="http://www.w3.org/2001/XMLSchema">%s</xs:schema>' % decl)
    return _ES[version]


# ---------------------------------------------------------------- Engine B: lexical spaces

_DT = {'gDay': 1, 'gMonth': 1, 'gMonthDay': 1, 'gYear': 1, 'gYearMonth': 1, 'date': 1, 'time': 1, 'dateTime': 1, 'duration': 1}


def _impl_regex(version, name):
    """(z3 Re, [description of the live artifacts used]) for the implementation's accepted NORMALISED lexical forms"""
    z3 = smt.z3
    t = btype(version, name)
    parts, used = [], []
    if t.patterns is not None:
        for p in t.patterns.patterns:
            parts.append(smt.sre_to_z3(p))
            used.append("type.patterns: %s" % p.pattern[:60])
    tp = t.to_python
    owner = getattr(tp, '__self__', None)
    if owner is not None and hasattr(owner, 'pattern'):           # elementpath datatype classmethod fromstring
        parts.append(smt.sre_to_z3(owner.pattern))
        used.append("%s.pattern: %s" % (owner.__name__, owner.pattern.pattern[:60]))
    elif inspect.isclass(tp) and hasattr(tp, 'pattern') and tp not in (str, int, float):
        interleave = None
        src = textwrap.dedent(inspect.getsource(tp.__new__)) if '__new__' in tp.__dict__ else ''
        if ".replace(' ', '')" in src:
            interleave = ' '        # the constructor deletes every blank before matching: blanks may occur anywhere
        parts.append(_interleaved(tp.pattern, interleave))
        used.append("%s.pattern%s: %s" % (tp.__name__, " (blanks removed by __new__)" if interleave else "", tp.pattern.pattern[:60]))
    for val in t.validators:
        if inspect.isfunction(val):
            src = inspect.getsource(val)
            # validators of the form: if datatypes.X.pattern.match(value) is None: raise
            import re as _re
            m = _re.search(r'datatypes\.(\w+)\.pattern\.match\(value\)', src)
            if m:
                from elementpath import datatypes as _d
                parts.append(smt.sre_to_z3(getattr(_d, m.group(1)).pattern))
                used.append("%s via %s" % (m.group(1), val.__name__))
    if not parts:
        raise smt.Unsupported("no pattern artifact found for xs:%s (to_python=%r)" % (name, tp))
    r = parts[0]
    for p in parts[1:]:
        r = z3.Intersect(r, p)
    return r, used


def _interleaved(pattern, ch):
    z3 = smt.z3
    base = smt.sre_to_z3(pattern)
    if not ch:
        return base
    # {s : delete(ch, s) in L}: computed on the z3 side as "exists u in L: u is s without blanks" is not regular-friendly;
    # instead build L' structurally: re-translate the pattern with every consumed character followed by ch*
    sre_parse, C = smt._sre()
    tree = list(sre_parse.parse(pattern.pattern, pattern.flags))
    items = [x for x in tree if not (str(x[0]) == 'AT')]
    sp = z3.Star(z3.Re(ch))

    def seq(items):
        out = None
        for op, av in items:
            n = node(op, av)
            out = n if out is None else z3.Concat(out, n)
        return out if out is not None else z3.Re("")

    def node(op, av):
        name = str(op)
        if name in ('LITERAL', 'NOT_LITERAL', 'IN', 'ANY', 'CATEGORY'):
            return z3.Concat(smt._node(op, av, C, pattern.flags), sp)
        if name == 'BRANCH':
            alts = [seq(list(a)) for a in av[1]]
            return alts[0] if len(alts) == 1 else z3.Union(*alts)
        if name == 'SUBPATTERN':
            return seq(list(av[-1]))
        if name in ('MAX_REPEAT', 'MIN_REPEAT'):
            lo, hi, sub = av
            r = seq(list(sub))
            if str(hi) == 'MAXREPEAT':
                return z3.Star(r) if lo == 0 else (z3.Plus(r) if lo == 1 else z3.Concat(z3.Loop(r, lo, lo), z3.Star(r)))
            return z3.Option(r) if (lo, hi) == (0, 1) else z3.Loop(r, lo, hi)
        raise smt.Unsupported("interleave over %s" % name)
    return z3.Concat(sp, seq(items))


def smt_lexical(config):
    z3 = smt.z3
    name, version, maxlen = config["type"], config["version"], config.get("maxlen", 12)
    specname = name
    if name in ('float', 'double'):
        specname = 'float10' if version == '1.0' else 'float11'
    if name in ('ID', 'IDREF', 'ENTITY'):
        specname = 'NCName'
    try:
        impl, used = _impl_regex(version, name)
        spec = smt.sre_to_z3(X.LEXICAL[specname])
    except smt.Unsupported as e:
        return {"status": "unknown", "error": "translator refused: %s" % e, "queries": 0}
    x = z3.String('x')
    ses = smt.Session(timeout_ms=config.get("timeout_ms", 120000))
    base = [z3.Length(x) <= maxlen]
    if name == 'duration':
        base += [x != z3.StringVal('P'), x != z3.StringVal('-P')]
    # collapse-normalised forms only: no leading/trailing/double blanks, no other XML whitespace (the constraint is only
    # added where a blank can occur in the implementation's language at all: xs:decimal)
    if name == 'decimal':
        ws = z3.Union(z3.Re('\t'), z3.Re('\n'), z3.Re('\r'))
        anyc = z3.Star(smt._any_char())
        base += [z3.Not(z3.InRe(x, z3.Concat(anyc, ws, anyc))), z3.Not(z3.PrefixOf(z3.StringVal(' '), x)),
                 z3.Not(z3.SuffixOf(z3.StringVal(' '), x)), z3.Not(z3.Contains(x, z3.StringVal('  ')))]
    regions = [globals()[p](x, name) for p in open_regions(__name__, "smt_lexical")]
    regions = [r for r in regions if r is not None]
    out = {"functions": used, "samples": [{"type": name, "version": version, "artifacts": used, "spec": X.LEXICAL[specname][:80], "maxlen": maxlen}]}
    r0, _ = ses.check(*base, z3.InRe(x, impl))
    if r0 != 'sat':
        out.update(status="error" if r0 == 'unsat' else "unknown", error="vacuity check: %s" % r0, queries=ses.queries, solver_s=round(ses.seconds, 3))
        return out
    cex = []
    statuses = []
    for label, cond in (("accepted-but-not-in-lexical-space", z3.And(z3.InRe(x, impl), z3.Not(z3.InRe(x, spec)))),
                        ("in-lexical-space-but-rejected", z3.And(z3.InRe(x, spec), z3.Not(z3.InRe(x, impl))))):
        r, m = ses.check(*base, cond, *[z3.Not(rg) for rg in regions])
        statuses.append(r)
        if r == 'sat':
            sv = m.eval(x, model_completion=True).as_string()
            sv = _z3str(sv)
            cex.append({"args": {"__kw__": {"type": name, "version": version, "text": sv, "want": label.startswith("in-")}},
                        "replay_fn": "replay_value", "message": "%s: %r for xs:%s" % (label, sv, name)})
    out.update(queries=ses.queries, solver_s=round(ses.seconds, 3))
    if cex:
        out["status"] = "sat"
        out["cex"] = cex
    elif all(s == 'unsat' for s in statuses):
        out["status"] = "unsat"
    else:
        out["status"] = "unknown"
    return out


def _z3str(s):
    """z3 prints non-ASCII characters as \\u{..} escapes"""
    import re
    return re.sub(r'\\u\{([0-9a-fA-F]+)\}', lambda m: chr(int(m.group(1), 16)), s)


def region_decimal_inner_blanks(x, name):
    """known finding C02-decimal-inner-blanks: blanks inside an xs:decimal literal are deleted before matching"""
    if name != 'decimal':
        return None
    return smt.z3.Contains(x, smt.z3.StringVal(' '))


# ---------------------------------------------------------------- Engine A: whitespace normalisation

_WS_TYPES = {"preserve": "string", "replace": "normalizedString", "collapse": "token"}


def pre_norm(fn, s):
    if len(s) > CFG["maxlen"]:
        return False
    if CFG["alpha"]:
        for ch in s:
            if ch not in CFG["alpha"]:
                return False
    return True


def h_normalize(s: str) -> bool:
    t = btype('1.0', _WS_TYPES[CFG["mode"]])
    return t.normalize(s) == X.normalize(CFG["mode"], s)


# ---------------------------------------------------------------- Engine A: facets on symbolic values

_FT = {}
_FACET_XSD = """<xs:schema xmlns:xs="http://www.w3.org/2001/XMLSchema">
 <xs:simpleType name="minI"><xs:restriction base="xs:integer"><xs:minInclusive value="5"/></xs:restriction></xs:simpleType>
 <xs:simpleType name="minE"><xs:restriction base="xs:integer"><xs:minExclusive value="5"/></xs:restriction></xs:simpleType>
 <xs:simpleType name="maxI"><xs:restriction base="xs:integer"><xs:maxInclusive value="5"/></xs:restriction></xs:simpleType>
 <xs:simpleType name="maxE"><xs:restriction base="xs:integer"><xs:maxExclusive value="5"/></xs:restriction></xs:simpleType>
 <xs:simpleType name="len"><xs:restriction base="xs:string"><xs:length value="2"/></xs:restriction></xs:simpleType>
 <xs:simpleType name="minL"><xs:restriction base="xs:string"><xs:minLength value="2"/></xs:restriction></xs:simpleType>
 <xs:simpleType name="maxL"><xs:restriction base="xs:string"><xs:maxLength value="2"/></xs:restriction></xs:simpleType>
 <xs:simpleType name="listL"><xs:restriction><xs:simpleType><xs:list itemType="xs:int"/></xs:simpleType><xs:maxLength value="2"/></xs:restriction></xs:simpleType>
</xs:schema>"""
_FACET_REF = {
    "minI": lambda v, b: v >= b, "minE": lambda v, b: v > b, "maxI": lambda v, b: v <= b, "maxE": lambda v, b: v < b,
    "len": lambda v, b: len(v) == b, "minL": lambda v, b: len(v) >= b, "maxL": lambda v, b: len(v) <= b,
}


def _facet_types():
    if not _FT:
        s = xmlschema.XMLSchema10(_FACET_XSD)
        s.maps.cache.enabled = False
        for n in ("minI", "minE", "maxI", "maxE", "len", "minL", "maxL"):
            _FT[n] = s.types[n]
    return _FT


def _the_facet(t):
    return [f for f in t.validators if hasattr(f, 'value')][0]


def pre_facet_int(fn, v, b):
    return -3 <= v <= 3 and -3 <= b <= 3      # error messages format the values: unbounded ints make the engine enumerate


def h_facet_int(v: int, b: int) -> bool:
    """P2: the facet's bound is overwritten with a symbolic int; the real facet validator runs on a symbolic value"""
    t = _facet_types()[CFG["facet"]]
    f = _the_facet(t)
    old = f.value
    f.value = b
    try:
        try:
            f(v)
            ok = True
        except XMLSchemaValidationError:
            ok = False
    finally:
        f.value = old
    return ok == _FACET_REF[CFG["facet"]](v, b)


def pre_facet_str(fn, s, b):
    if not (len(s) <= 2 and 0 <= b <= 3):
        return False
    for ch in s:
        if ch not in 'ab':      # error messages format the value: a finite alphabet keeps the realisations finite
            return False
    return True


def h_facet_str(s: str, b: int) -> bool:
    t = _facet_types()[CFG["facet"]]
    f = _the_facet(t)
    old = f.value
    f.value = b
    try:
        try:
            f(s)
            ok = True
        except XMLSchemaValidationError:
            ok = False
    finally:
        f.value = old
    return ok == _FACET_REF[CFG["facet"]](s, b)


# ---------------------------------------------------------------- digits facets (finite-choice boundary literals)

_DIGITS_XSD = """<xs:schema xmlns:xs="http://www.w3.org/2001/XMLSchema">
 <xs:simpleType name="tdI"><xs:restriction base="xs:integer"><xs:totalDigits value="3"/></xs:restriction></xs:simpleType>
 <xs:simpleType name="tdD"><xs:restriction base="xs:decimal"><xs:totalDigits value="3"/></xs:restriction></xs:simpleType>
 <xs:simpleType name="fdD"><xs:restriction base="xs:decimal"><xs:fractionDigits value="3"/></xs:restriction></xs:simpleType>
</xs:schema>"""
DIGIT_LITERALS = {
    "tdI": ['0', '9', '10', '99', '100', '999', '1000', '9999', '10000', '-9', '-10', '-99', '-100', '-999', '-1000', '-9999', '+100', '0099'],
    "tdD": ['0', '0.0', '9.9', '10', '1.10', '0.01', '0.001', '100.00', '99.9', '99.99', '-0.5', '-12.3', '-12.34', '-123', '-1234', '.5', '5.', '1000'],
    "fdD": ['0', '1.0', '1.10', '1.11', '0.001', '0.0010', '0.0001', '-1.5', '-1.25', '-0.125', '100', '1.', '.1234'],
}
_DT_TYPES = {}


def _digit_types():
    if not _DT_TYPES:
        sch = xmlschema.XMLSchema10(_DIGITS_XSD)
        sch.maps.cache.enabled = False
        for n in DIGIT_LITERALS:
            _DT_TYPES[n] = sch.types[n]
    return _DT_TYPES


def _min_total_fraction(text):
    """XSD Part 2 4.3.11/4.3.12: smallest totalDigits / fractionDigits admitting the decimal value of `text`"""
    from decimal import Decimal
    d = Decimal(text)
    if d == 0:
        return 1, 0
    sign, digits, exp = d.normalize().as_tuple()
    total = max(len(digits) + max(exp, 0), -exp if exp < 0 else 0)
    frac = -exp if exp < 0 else 0
    return total, frac


def pre_digits(fn, li, b):
    return 0 <= li < len(DIGIT_LITERALS[CFG["facet"]]) and 1 <= b <= 5


def h_digits(li: int, b: int) -> bool:
    from engine.sym import pick
    name = CFG["facet"]
    t = _digit_types()[name]
    text = DIGIT_LITERALS[name][pick(li, len(DIGIT_LITERALS[name]))]
    bound = pick(b - 1, 5) + 1
    f = [x for x in t.validators if hasattr(x, 'value')][0]
    old = f.value
    f.value = bound
    try:
        ok = t.is_valid(text)
    finally:
        f.value = old
    total, frac = _min_total_fraction(text)
    want = (total <= bound) if name.startswith('td') else (frac <= bound)
    return ok == want


# ---------------------------------------------------------------- derived types in one document: unions, lists, patterns
# Several values of pattern-restricted unions and of list types are validated in one document run: the verdict of each
# value is the one of its own type (XSD Datatypes 4.1.4: a value is checked against the facets of its type only).
_SEQ_XSD = """<xs:schema xmlns:xs="http://www.w3.org/2001/XMLSchema">
 <xs:simpleType name="U"><xs:union memberTypes="xs:integer xs:NCName"/></xs:simpleType>
 <xs:simpleType name="UR1"><xs:restriction base="U"><xs:pattern value="[A-Z]+"/></xs:restriction></xs:simpleType>
 <xs:simpleType name="UR2"><xs:restriction base="U"><xs:pattern value="[0-9]{2}"/></xs:restriction></xs:simpleType>
 <xs:simpleType name="L"><xs:list itemType="xs:integer"/></xs:simpleType>
 <xs:simpleType name="LR"><xs:restriction base="L"><xs:length value="2"/></xs:restriction></xs:simpleType>
 <xs:simpleType name="UR12"><xs:restriction base="UR1"><xs:pattern value="[A-Z0-9]+"/></xs:restriction></xs:simpleType>
 <xs:simpleType name="LD"><xs:list itemType="xs:date"/></xs:simpleType>
 <xs:simpleType name="LQ"><xs:restriction><xs:simpleType><xs:list itemType="xs:QName"/></xs:simpleType><xs:maxLength value="2"/></xs:restriction></xs:simpleType>
 <xs:element name="r"><xs:complexType><xs:sequence>
   <xs:element name="e1" type="UR1"/><xs:element name="e2" type="U"/><xs:element name="e3" type="UR2"/><xs:element name="e4" type="LR"/>
   <xs:element name="e5" type="LD" minOccurs="0"/><xs:element name="e6" type="LQ" minOccurs="0"/><xs:element name="e7" type="UR12" minOccurs="0"/>
 </xs:sequence><xs:attribute name="a1" type="UR2"/><xs:attribute name="a2" type="U"/></xs:complexType></xs:element></xs:schema>"""
SEQ_VALUES = ['12', 'ABC', 'abc', 'x y', '1 2', '7']
LD_VALUES = ['2000-01-01', '2000-01-01 2001-02-03Z', ' 1999-12-31  2000-02-29 ', '2000-01-01 x']          # lists of dates
LQ_VALUES = ['t:a', 't:a t:b', 't:a t:b t:c', 'a b c d']                                              # lists of QNames, maxLength 2
_SEQ = {}


def _seq_schema(version):
    if version not in _SEQ:
        import xmlschema
        _SEQ[version] = (xmlschema.XMLSchema10 if version == '1.0' else xmlschema.XMLSchema11)(_SEQ_XSD)
    return _SEQ[version]


def _seq_ref(tname, text):
    import re
    is_int = re.fullmatch(r'[+-]?[0-9]+', text) is not None
    is_ncname = re.fullmatch(r'[A-Za-z_][A-Za-z0-9._-]*', text) is not None
    in_u = is_int or is_ncname
    if tname == 'U':
        return in_u
    if tname == 'UR1':
        return in_u and re.fullmatch(r'[A-Z]+', text) is not None
    if tname == 'UR2':
        return in_u and re.fullmatch(r'[0-9]{2}', text) is not None
    if tname == 'LR':
        items = text.split()
        return len(items) == 2 and all(re.fullmatch(r'[+-]?[0-9]+', i) for i in items)
    raise ValueError(tname)


def region_union_two_level_patterns(**kw):
    """known finding C02-union-nested-patterns: the value of e7 matches the outer pattern [A-Z0-9]+ of UR12 but not the
    pattern [A-Z]+ of its base UR1 (digits only)"""
    return kw.get("e7") in (0, 5)


def pre_seq(fn, **kw):
    if not all(0 <= v < (4 if k in ("e5", "e6") else len(SEQ_VALUES)) for k, v in kw.items()):
        return False
    from engine.known import open_regions
    return not any(globals()[p](**kw) for p in open_regions(__name__, fn))


def h_seq(**kw) -> bool:
    import xml.etree.ElementTree as ET
    from engine.sym import pick
    sch = _seq_schema(CFG["version"])
    slots = [("e1", "UR1"), ("e2", "U"), ("e3", "UR2"), ("e4", "LR"), ("a1", "UR2"), ("a2", "U")]
    vals = {}
    for name, t in slots:
        vals[name] = SEQ_VALUES[pick(kw[name], len(SEQ_VALUES))] if name in kw else {"UR1": "ABC", "U": "abc", "UR2": "12", "LR": "1 2"}[t]
    root = ET.Element('r', {"a1": vals["a1"], "a2": vals["a2"]})
    for name in ("e1", "e2", "e3", "e4"):
        ET.SubElement(root, name).text = vals[name]
    ld = LD_VALUES[pick(kw["e5"], 4)] if "e5" in kw else None
    lq = LQ_VALUES[pick(kw["e6"], 4)] if "e6" in kw else None
    if ld is not None:
        ET.SubElement(root, 'e5').text = ld
    if lq is not None:
        ET.SubElement(root, 'e6').text = lq
    u7 = SEQ_VALUES[pick(kw["e7"], len(SEQ_VALUES))] if "e7" in kw else None
    if u7 is not None:
        ET.SubElement(root, 'e7').text = u7
    ns = {'t': 'urn:t'}
    if ld is not None or lq is not None or u7 is not None:
        # the list elements: validity and, for the dates, the decoded items (each item is its own lexical form)
        import re
        bad = {e.path for e in sch.iter_errors(root, namespaces=ns)}
        data, _ = sch.decode(root, validation='lax', namespaces=ns)
        if ld is not None:
            items = ld.split()
            ok = all(re.fullmatch(r'-?[0-9]{4}-[0-9]{2}-[0-9]{2}(Z|[+-][0-9]{2}:[0-9]{2})?', i) for i in items)
            if ('/r/e5' in bad) == ok:
                return False
            if ok and data.get('e5') != items:
                return False
        if lq is not None:
            ok = len(lq.split()) <= 2
            if ('/r/e6' in bad) == ok:
                return False
        if u7 is not None:
            # a restriction of a restriction of a union: BOTH patterns apply (Datatypes 4.3.4: facets of all steps)
            ok = _seq_ref("UR1", u7) and re.fullmatch(r'[A-Z0-9]+', u7) is not None
            if ('/r/e7' in bad) == ok:
                return False
        return True
    bad_paths = set()
    for e in sch.iter_errors(root):
        bad_paths.add((e.path or '') + ('/@' + e.reason.split("attribute ")[1].split("=")[0] if e.reason and e.reason.startswith("attribute ") else ''))
    want = set()
    for name, t in slots:
        if not _seq_ref(t, vals[name]):
            want.add('/r/@' + name if name[0] == 'a' else '/r/' + name)
    return bad_paths == want


def explain(fn, args):
    if fn == "h_seq":
        return "XSD %s values %r (pool %r)" % (CFG["version"], args, SEQ_VALUES)
    if fn == "h_digits":
        name = CFG["facet"]
        return "facet type %s literal %r bound %d (min totalDigits, fractionDigits) = %r" % (
            name, DIGIT_LITERALS[name][args["li"]], args["b"], _min_total_fraction(DIGIT_LITERALS[name][args["li"]]))
    if fn == "h_normalize":
        t = btype('1.0', _WS_TYPES[CFG["mode"]])
        return "whiteSpace=%s text %r -> %r, XSD says %r" % (CFG["mode"], args["s"], t.normalize(args["s"]), X.normalize(CFG["mode"], args["s"]))
    if fn == "replay_value":
        s = _elem_schema(args["version"])
        return "xs:%s text %r: is_valid=%s" % (args["type"], args["text"], s.is_valid('<e_%s>%s</e_%s>' % (args["type"], _xml_escape(args["text"]), args["type"])))
    return "facet %s args %r" % (CFG["facet"], args)


META = {
    "level": "model_checking",
    "symbolic_kind": "string (z3 sequences/regex), integer (unbounded)",
    "functions": [
        "xmlschema.validators.simple_types.XsdSimpleType.normalize",
        "xmlschema.validators.helpers.byte_validator", "xmlschema.validators.helpers.long_validator",
        "xmlschema.validators.helpers.unsigned_long_validator", "xmlschema.validators.helpers.non_negative_int_validator",
        "xmlschema.validators.facets.XsdMinInclusiveFacet", "xmlschema.validators.facets.XsdMaxExclusiveFacet",
        "xmlschema.validators.facets.XsdLengthFacet", "xmlschema.validators.builtins",
    ],
    "bounds": {},
    "outside": "float/double value rounding, calendar arithmetic and field ranges of date/time values, the C parsers behind int()/float()/"
               "Decimal() (stubs: their documented grammars), list/union composition, characters beyond U+2FFFF (z3 character sort)",
    "stubs": ["int(): accepted language taken as given (a C routine); integer lexical findings are recorded from witnesses only"],
    "assumptions": ["lexical queries range over collapse-normalised strings (whitespace processing is checked separately by h_normalize)"],
}


def obligations(tier, seed):
    quick = tier == "quick"
    out = []
    for version in ("1.0", "1.1"):
        for name in X.INT_RANGES:
            out.append({"name": "range/%s/%s" % (version, name), "engine": "smt", "fn": "smt_range", "config": {"type": name, "version": version},
                        "timeout": 60, "bound": "all integers (unbounded)"})
        for name, ml in (("language", 12), ("Name", 6), ("NCName", 6), ("NMTOKEN", 6), ("ID", 6), ("float", 12), ("double", 12), ("hexBinary", 8),
                         ("decimal", 10), ("gDay", 12), ("gMonth", 12), ("gMonthDay", 14), ("gYear", 14), ("gYearMonth", 16), ("date", 18),
                         ("time", 16), ("dateTime", 21), ("duration", 12)):
            if not quick:
                ml = ml + 6
            out.append({"name": "lexical/%s/%s" % (version, name), "engine": "smt", "fn": "smt_lexical",
                        "config": {"type": name, "version": version, "maxlen": ml, "timeout_ms": 120000 if quick else 900000},
                        "timeout": 300 if quick else 2000, "bound": "all collapse-normalised strings of length <= %d (characters up to U+2FFFF)" % ml})
    for mode in ("preserve", "replace", "collapse"):
        out.append({"name": "normalize/%s/unicode" % mode, "fn": "h_normalize", "pre": "pre_norm", "args": [["s", "str"]],
                    "config": {"mode": mode, "maxlen": 2 if quick else 3, "alpha": None}, "timeout": 150 if quick else 1500, "twin_timeout": 20,
                    "bound": "every string of <= %d characters (any code point)" % (2 if quick else 3)})
        out.append({"name": "normalize/%s/ws-alphabet" % mode, "fn": "h_normalize", "pre": "pre_norm", "args": [["s", "str"]],
                    "config": {"mode": mode, "maxlen": 3 if quick else 5, "alpha": " \t\n\r\x0b\xa0\u2003a"}, "timeout": 150 if quick else 1500, "twin_timeout": 20,
                    "bound": "strings <= %d over {SP,TAB,LF,CR,VT,NBSP,EM SPACE,'a'}" % (3 if quick else 5)})
    for f in ("minI", "minE", "maxI", "maxE"):
        out.append({"name": "facet/%s" % f, "fn": "h_facet_int", "pre": "pre_facet_int", "args": [["v", "int"], ["b", "int"]],
                    "config": {"facet": f}, "timeout": 100, "twin_timeout": 20, "bound": "values and bounds in [-3,3] (real facet object, bound overwritten)"})
        out.append({"name": "facet-smt/%s" % f, "engine": "smt", "fn": "smt_facet", "config": {"facet": f}, "timeout": 60,
                    "bound": "all integer values and bounds (unbounded)"})
    for f in ("len", "minL", "maxL"):
        out.append({"name": "facet/%s" % f, "fn": "h_facet_str", "pre": "pre_facet_str", "args": [["s", "str"], ["b", "int"]],
                    "config": {"facet": f}, "timeout": 100, "twin_timeout": 20, "bound": "strings <= 2 characters over 'ab', facet value 0..3 (real facet object, bound overwritten)"})
        out.append({"name": "facet-smt/%s" % f, "engine": "smt", "fn": "smt_facet", "config": {"facet": f, "maxlen": 8}, "timeout": 60,
                    "bound": "all strings of length <= 8 and all facet values >= 0"})
    for version in ("1.0", "1.1"):
        for grp in (("e1", "e2", "e3"), ("a1", "a2", "e2"), ("e3", "e4", "a2"), ("e5", "e6", "e7")):
            out.append({"name": "seq/%s/%s" % (version, "+".join(grp)), "fn": "h_seq", "pre": "pre_seq", "args": [[g, "int"] for g in grp],
                        "config": {"version": version, "seq": True}, "timeout": 300, "twin_timeout": 30,
                        "bound": "values of %s from %r in one document (pattern-restricted unions, a length-restricted list), the other values fixed valid" % (grp, SEQ_VALUES)})
    for f in ("tdI", "tdD", "fdD"):
        out.append({"name": "digits/%s" % f, "fn": "h_digits", "pre": "pre_digits", "args": [["li", "int"], ["b", "int"]],
                    "config": {"facet": f}, "timeout": 200, "twin_timeout": 20,
                    "bound": "boundary literals %r x facet value 1..5 (finite choice, facet value overwritten on the live facet)" % (DIGIT_LITERALS[f],)})
    return out
