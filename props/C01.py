"""C01 - child sequences are valid exactly when they are words of the content model.

Engine A (CrossHair), patterns P1+P2: the schema is built by the real parser from a catalogue shape with a concrete
occurrence vector (filtered to deterministic models by the independent UPA oracle, not by check_model); the children of
the instance element get SYMBOLIC local names (one arbitrary character each, in the target or in a foreign namespace),
so that the real validator (schema.iter_errors -> XsdElement/XsdGroup.raw_decode -> ModelVisitor) forks only where
it compares names; the oracle (position automaton of oracles/cm.py) is executed on the same symbolic names.
"""
import json
import os
import xml.etree.ElementTree as ET

from engine.sym import pick
from oracles import cm
from props import cmshapes as S

ID = "C01"
CFG = {"shape": None, "version": "1.0", "occ": None, "n": 2, "pool": 4, "open": None, "key": None}
STATE = {}


def _detuple(x):
    if isinstance(x, list) and x and isinstance(x[0], str) and len(x[0]) == 1 and x[0] in 'ewsca':
        if x[0] in 'sca':
            return (x[0], [_detuple(c) for c in x[1]], x[2], x[3])
        return tuple(x)
    return x


def configure(cfg):
    """concrete occurrence vector: the schema is parsed from XSD text that carries exactly these occurrences (no
    overwriting of live objects), in lax mode so that a model rejected by check_model can still be exercised"""
    CFG.update(cfg)
    if CFG["shape"] is None:
        return
    shape = _detuple(CFG["shape"])
    if CFG["occ"]:
        shape = S.with_occurs(shape, [tuple(o) for o in CFG["occ"]])
    oc = tuple(CFG["open"]) if CFG["open"] else None
    sch, root, group, parts = S.build(shape, CFG["version"], open_content=oc)
    oracle = S.to_oracle(shape)
    STATE.update(shape=shape, schema=sch, group=group, parts=parts, oracle=oracle,
                 aut=cm.Automaton(oracle, S.SUBST), text=cm.render(oracle),
                 known=known_words(CFG.get("key") or model_key(CFG["version"], shape, oc)))


POOL = [S.q('a'), S.q('b'), S.q('c'), S.q('m'), S.q('z'), '{ext}x', 'u', S.q('l')]
#        declared a b c, substitution member m, undeclared z in tns, foreign-namespace x, no-namespace u, transitive member l


def pre_word(fn, **kw):
    n = kw["n"]
    if not (0 <= n <= CFG["n"]):
        return False
    for k in range(CFG["n"]):
        if not (0 <= kw["w%d" % k] < CFG["pool"]):
            return False
    if STATE.get("known"):
        n = pick(n, CFG["n"] + 1)
        w = tuple(pick(kw["w%d" % k], CFG["pool"]) for k in range(n))
        if w in STATE["known"]:       # known-finding region: explicit list of words of this model
            return False
    return True


def _word(kw):
    """the word is read lazily: the k-th name is fixed only when the k-th child is built"""
    n = pick(kw["n"], CFG["n"] + 1)
    return [POOL[pick(kw["w%d" % k], CFG["pool"])] for k in range(n)]


def _oracle_accepts(names):
    aut = STATE["aut"]
    if CFG["open"]:
        mode, tok = CFG["open"][:2]          # processContents (lax/skip) does not change the language
        return aut.accepts_open(names, mode, S.WILD[tok][1], CFG["version"])
    return aut.accepts(names, CFG["version"])


def h_word(**kw) -> bool:
    names = _word(kw)
    root = ET.Element('{' + S.TNS + '}r')
    for nm in names:
        ch = ET.SubElement(root, nm)
        ch.text = 'v'
    errors = list(STATE["schema"].iter_errors(root))
    want = _oracle_accepts(names)
    got = not errors
    if got != want:
        return False
    if not got:
        # a rejected sequence yields at least one error attached to the parent element
        if not any(e.elem is root for e in errors):
            return False
    return True


def explain(fn, args):
    names = _word(args)
    root = ET.Element('{' + S.TNS + '}r')
    for nm in names:
        ET.SubElement(root, nm).text = 'v'
    errors = list(STATE["schema"].iter_errors(root))
    return "XSD %s model %s%s word %s: validator says %s (%s), oracle says %s" % (
        CFG["version"], STATE["text"], " open=%s" % (CFG["open"],) if CFG["open"] else "",
        [x.split('}')[-1] if x.startswith('{tns}') else x for x in names],
        "valid" if not errors else "invalid", [e.reason for e in errors][:2], "in language" if _oracle_accepts(names) else "NOT in language")


META = {
    "level": "model_checking",
    "symbolic_kind": "string (one-character local names, symbolic) + finite-choice namespace flag",
    "functions": [
        "xmlschema.validators.groups.XsdGroup.raw_decode",
        "xmlschema.validators.models.ModelVisitor.advance",
        "xmlschema.validators.models.ModelVisitor.match_element",
        "xmlschema.validators.models.ModelVisitor.stop",
        "xmlschema.validators.elements.XsdElement.match",
        "xmlschema.validators.wildcards.XsdAnyElement.is_matching",
        "xmlschema.validators.particles.ParticleMixin.is_over",
        "xmlschema.validators.particles.ParticleMixin.is_missing",
        "xmlschema.validators.schemas.XMLSchemaBase.iter_errors",
    ],
    "bounds": {},
    "outside": "words longer than the bound, models outside the catalogue, nondeterministic models (excluded by the property), "
               "content of the children (simple string leaves, always valid)",
    "stubs": [],
    "assumptions": ["determinism of a model is decided by the independent UPA oracle (oracles/cm.py), not by check_model"],
}


DX = [(0, 1), (1, 1), (0, None), (1, None), (2, 2), (0, 2), (1, 2), (2, None), (2, 3)]
_ROOT = os.path.dirname(os.path.dirname(os.path.abspath(__file__)))


def model_key(version, shape, open_content=None):
    return "%s|%s|%s" % (version, cm.render(S.to_oracle(shape)), "-".join(open_content) if open_content else "")


def models(version):
    """The fixed model catalogue of C01 (independent of VERIF_SEED, so that known/C01.json can list failing words per
    model): for every catalogue shape with <= 5 particles two occurrence vectors drawn by a fixed generator from DX and
    kept when the independent oracle finds the model deterministic.  XSD 1.1 models are required to be deterministic
    under the XSD 1.0 rule as well (no element/wildcard competition), except for the explicit COMPETITION list;
    plus 'all' groups and (1.1) open-content variants."""
    import random
    out = []
    seen = set()
    for shape in S.catalogue():
        nodes = S.nodes_preorder(shape)
        if len(nodes) > 5:
            continue
        rnd = random.Random("C01:" + S.shape_id(shape))
        got = 0
        for _ in range(12):
            if got >= 2:
                break
            vec = [rnd.choice(DX) for _ in nodes]
            m = S.with_occurs(shape, vec)
            om = S.to_oracle(m)
            if not cm.deterministic(om, '1.0', S.SUBST):
                continue
            key = model_key(version, m)
            if key in seen:
                continue
            seen.add(key)
            got += 1
            out.append({"key": key, "shape": m, "open": None, "family": "catalogue"})
    E, W, Sq, C, A = S.E, S.W, S.S, S.C, S.A
    extra = [
        A(E('a'), E('b', 0, 1), E('c')), A(E('a', 0, 1), E('b', 0, 1)), A(E('a'), E('b'), mn=0), A(E('h'), E('c', 0, 1)),
    ]
    if version == '1.1':
        extra += [A(E('a', 0, 2), E('b', 1, None)), A(E('a', 0, None), E('b', 2, 2), E('c', 0, 1)), A(E('a'), W('other', 0, None))]
    for m in extra:
        out.append({"key": model_key(version, m), "shape": m, "open": None, "family": "all"})
    if version == '1.1':
        comp = [Sq(E('a', 0, 1), W('any', 0, 2)), Sq(W('tns', 0, None), E('b')), C(E('a'), W('tns', 0, None)),
                Sq(W('any', 1, 2), E('h')), Sq(E('a', 0, None), W('tns', 0, 2), E('b', 0, 1))]
        for m in comp:
            out.append({"key": model_key(version, m), "shape": m, "open": None, "family": "competition"})
        for base in (Sq(E('a'), E('b', 0, 1)), C(E('a'), E('b'), mn=0, mx=None), Sq(E('a', 0, 2), Sq(E('b'), E('c', 0, 1), mn=0, mx=1))):
            for oc in (("interleave", "any"), ("interleave", "other"), ("suffix", "any"), ("suffix", "other"), ("interleave", "any", "skip"), ("suffix", "other", "skip"),
                       ("interleave", "any", "lax", "ext"), ("suffix", "other", "lax", "ext")):
                out.append({"key": model_key(version, base, oc), "shape": base, "open": list(oc), "family": "open"})
    return out


_KNOWN = None


def known_words(key):
    global _KNOWN
    if _KNOWN is None:
        _KNOWN = {}
        path = os.path.join(_ROOT, "known", "C01.json")
        kf = os.path.join(_ROOT, "known_findings.json")
        is_open = any(f["id"] == "C01-model-visitor" and f["status"] == "open"
                      for f in json.load(open(kf))["findings"]) if os.path.exists(kf) else False
        if is_open and os.path.exists(path):
            _KNOWN = {k: set(tuple(int(c) for c in w) for w in v) for k, v in json.load(open(path)).items()}
    return _KNOWN.get(key, set())


def known_replay(config):
    listed = sorted(STATE.get("known", ()))
    rep = 0
    ex = None
    for w in listed:
        kw = {"n": len(w)}
        kw.update({"w%d" % i: (w[i] if i < len(w) else 0) for i in range(CFG["n"])})
        if len(w) > CFG["n"] or any(x >= CFG["pool"] for x in w):
            continue
        if not h_word(**kw):
            rep += 1
            if ex is None:
                ex = explain("h_word", kw)
    return {"finding": "C01-model-visitor", "listed": len(listed), "reproduced": rep, "example": ex}


def obligations(tier, seed):
    import random
    rnd = random.Random(seed)
    out = []
    quick = tier == "quick"
    if quick:
        n, pool, to = 4, 4, 240
        per = {"catalogue": 12, "all": 2, "competition": 5, "open": 4}
    else:
        n, pool, to = 4, 8, 1800
        per = {"catalogue": 120, "all": 7, "competition": 5, "open": 18}
    for version in ("1.0", "1.1"):
        ms = models(version)
        fam = {}
        for m in ms:
            fam.setdefault(m["family"], []).append(m)
        for f, k in per.items():
            lst = fam.get(f, [])
            chosen = rnd.sample(lst, min(k, len(lst)))
            if quick and f == "catalogue":
                # two models with a substitution head are always part of the quick tier (both versions)
                heads = [m for m in lst if m["key"].split('|')[1] in ("(h, b+)", "(h | a?)")]
                chosen = heads + [m for m in chosen if m not in heads][:max(0, k - len(heads))]
            if quick and f == "open":
                # the skip variants are always part of the quick tier
                special = [m for m in lst if m["open"] and len(m["open"]) > 2]
                chosen = [m for m in special if len(m["open"]) == 3][:1] + [m for m in special if len(m["open"]) == 4][:1] + chosen[:max(0, k - 2)]
            for m in chosen:
                n_, pool_ = (3, 5) if (quick and f == "open") else (n, pool)          # open content: an undeclared name in the alphabet
                if quick and "'h'" in repr(m["shape"]):
                    n_, pool_ = 3, 8          # a substitution head: the transitive member l must be in the alphabet
                out.append({
                    "name": "word/%s" % m["key"].replace(" ", ""),
                    "fn": "h_word", "pre": "pre_word", "args": [["n", "int"]] + [["w%d" % k2, "int"] for k2 in range(n_)],
                    "config": {"shape": m["shape"], "version": version, "occ": None, "open": m["open"], "n": n_, "pool": pool_, "key": m["key"]},
                    "timeout": to, "twin_timeout": 30,
                    "bound": "all words of length <= %d over %d names (%s)" % (n_, pool_, ", ".join(x.split('}')[-1] for x in POOL[:pool_])),
                })
    return out
