"""C08 - identity constraints: ID/IDREF and unique/key/keyref are enforced exactly.

Engine A (CrossHair), P1 finite-choice tables: documents whose item/reference elements carry field attributes chosen by
symbolic indices from pools of lexically different, value-equal forms (and 'absent') are validated by the real
schema.iter_errors(); the verdict is compared with the set semantics of XSD Structures 3.11.4 computed on typed values.
"""
import xml.etree.ElementTree as ET
from decimal import Decimal

import xmlschema

from engine.sym import pick

ID = "C08"
CFG = {"template": "key1", "version": "1.0"}

A_POOL = [None, "1", "1.0", "2", "01"]           # xs:decimal field: 1 == 1.0 == 01
B_POOL = [None, "true", "1", "false"]            # xs:boolean field: true == 1
ID_POOL = [None, "x", "y"]
REF_POOL = [None, "x", "y", "z"]

_ITEM = """<xs:element name="i" minOccurs="0" maxOccurs="unbounded"><xs:complexType>
   <xs:attribute name="a" type="xs:decimal"/><xs:attribute name="b" type="xs:boolean"/></xs:complexType></xs:element>
 <xs:element name="ref" minOccurs="0" maxOccurs="unbounded"><xs:complexType>
   <xs:attribute name="a" type="xs:decimal"/><xs:attribute name="b" type="xs:boolean"/></xs:complexType></xs:element>"""

TEMPLATES = {
    # name: (constraints xml inside <r>, description)
    "key1": '<xs:key name="K"><xs:selector xpath="i"/><xs:field xpath="@a"/></xs:key>'
            '<xs:keyref name="R" refer="K"><xs:selector xpath="ref"/><xs:field xpath="@a"/></xs:keyref>',
    "unique2": '<xs:unique name="U"><xs:selector xpath="i"/><xs:field xpath="@a"/><xs:field xpath="@b"/></xs:unique>',
    "key2": '<xs:key name="K"><xs:selector xpath="i"/><xs:field xpath="@a"/><xs:field xpath="@b"/></xs:key>'
            '<xs:keyref name="R" refer="K"><xs:selector xpath="ref"/><xs:field xpath="@a"/><xs:field xpath="@b"/></xs:keyref>',
    "uniqueref2": '<xs:unique name="U"><xs:selector xpath="i"/><xs:field xpath="@a"/><xs:field xpath="@b"/></xs:unique>'
                  '<xs:keyref name="R" refer="U"><xs:selector xpath="ref"/><xs:field xpath="@a"/><xs:field xpath="@b"/></xs:keyref>',
}
_S = {}


def _schema(template, version):
    key = (template, version)
    if key not in _S:
        cls = xmlschema.XMLSchema10 if version == "1.0" else xmlschema.XMLSchema11
        if template == "scoped":
            xsd = """<xs:schema xmlns:xs="http://www.w3.org/2001/XMLSchema"><xs:element name="r"><xs:complexType><xs:sequence>
              <xs:element name="g" maxOccurs="unbounded"><xs:complexType><xs:sequence>%s</xs:sequence></xs:complexType>
                <xs:key name="K"><xs:selector xpath="i"/><xs:field xpath="@a"/></xs:key>
                <xs:keyref name="R" refer="K"><xs:selector xpath="ref"/><xs:field xpath="@a"/></xs:keyref>
              </xs:element></xs:sequence></xs:complexType></xs:element></xs:schema>""" % _ITEM
        elif template == "idref":
            xsd = """<xs:schema xmlns:xs="http://www.w3.org/2001/XMLSchema"><xs:element name="r"><xs:complexType><xs:sequence>
              <xs:element name="n" maxOccurs="unbounded"><xs:complexType><xs:attribute name="id" type="xs:ID"/>
                <xs:attribute name="ref" type="xs:IDREF"/></xs:complexType></xs:element></xs:sequence></xs:complexType></xs:element></xs:schema>"""
        else:
            xsd = """<xs:schema xmlns:xs="http://www.w3.org/2001/XMLSchema"><xs:element name="r"><xs:complexType><xs:sequence>%s
              </xs:sequence></xs:complexType>%s</xs:element></xs:schema>""" % (_ITEM, TEMPLATES[template])
        _S[key] = cls(xsd)
    return _S[key]


def configure(cfg):
    CFG.update(cfg)
    if CFG["template"] == "childdef":
        _cd_schema(CFG["kind"], CFG["version"])
        return
    if CFG["template"] == "xsitype2":
        key = ("xsitype2", CFG["version"])
        if key not in _S:
            cls = xmlschema.XMLSchema10 if CFG["version"] == "1.0" else xmlschema.XMLSchema11
            _S[key] = cls(_XT2_XSD)
        return
    if CFG["template"] == "xsitype":
        key = ("xsitype", CFG["version"])
        if key not in _S:
            cls = xmlschema.XMLSchema10 if CFG["version"] == "1.0" else xmlschema.XMLSchema11
            _S[key] = cls(_XT_XSD)
        return
    _schema(CFG["template"], CFG["version"])


def _val_a(t):
    return None if t is None else Decimal(t)


def _val_b(t):
    return None if t is None else (t in ("true", "1"))


# ------------------------------------------------------------------ reference (XSD Structures 3.11.4)

def ref_table(kind, rows, refs=None, nfields=1):
    """rows/refs: lists of field-value tuples (None = field absent).  Returns True iff the constraint set holds."""
    complete = [r for r in rows if all(v is not None for v in r)]
    if kind == "key" and len(complete) != len(rows):
        return False                     # a key-selected node lacks a field
    if len(set(complete)) != len(complete):
        return False                     # two qualified nodes with equal tuples
    if refs is not None:
        table = set(complete)
        for r in refs:
            if all(v is not None for v in r) and r not in table:
                return False             # a fully present keyref tuple without a match
    return True


# ------------------------------------------------------------------ harnesses

def pre_rows(fn, **kw):
    for k, v in kw.items():
        pool = A_POOL if k[0] == 'a' else B_POOL
        if k.startswith('ag'):
            pool = S_POOL[:CFG.get("spool", len(S_POOL))]
        elif k[0] == 'b':
            pool = B_POOL[:CFG.get("bpool", len(B_POOL))]
        if k.startswith('id'):
            pool = ID_POOL
        elif k.startswith('rf'):
            pool = REF_POOL
        if not (0 <= v < len(pool)):
            return False
    return True


def _rows(kw, prefix_items, prefix_refs, two):
    def row(tag):
        a = A_POOL[pick(kw["a" + tag], len(A_POOL))]
        b = B_POOL[pick(kw["b" + tag], len(B_POOL))] if two else None
        return a, b
    items = [row(t) for t in prefix_items]
    refs = [row(t) for t in prefix_refs]
    return items, refs


def _elem(tag, a, b):
    attrs = {}
    if a is not None:
        attrs["a"] = a
    if b is not None:
        attrs["b"] = b
    return ET.Element(tag, attrs)


def h_table(**kw) -> bool:
    template = CFG["template"]
    two = template.endswith("2")
    item_tags = sorted({k[1:] for k in kw if k[0] == 'a' and k[1] == 'i'})
    ref_tags = sorted({k[1:] for k in kw if k[0] == 'a' and k[1] == 'r'})
    items, refs = _rows(kw, item_tags, ref_tags, two)
    root = ET.Element('r')
    for a, b in items:
        root.append(_elem('i', a, b))
    for a, b in refs:
        root.append(_elem('ref', a, b))
    errors = list(_schema(template, CFG["version"]).iter_errors(root))
    if two:
        rows = [(_val_a(a), _val_b(b)) for a, b in items]
        rrows = [(_val_a(a), _val_b(b)) for a, b in refs]
    else:
        rows = [(_val_a(a),) for a, b in items]
        rrows = [(_val_a(a),) for a, b in refs]
    kind = "key" if template.startswith("key") else "unique"
    want = ref_table(kind, rows, rrows if "R" in TEMPLATES[template] else None)
    return (not errors) == want


S_POOL = [None, "1", "1.0", "2"]          # quick tier uses the first three


def h_scoped(**kw) -> bool:
    """two scope elements <g>: keys are unique per scope, keyrefs resolve inside their own scope only"""
    root = ET.Element('r')
    ok = True
    for g in ("g1", "g2"):
        ge = ET.SubElement(root, 'g')
        items = [S_POOL[pick(kw["a%si%d" % (g, k)], len(S_POOL))] for k in range(2 if g == "g1" else 1)]
        ref = S_POOL[pick(kw["a%sr" % g], len(S_POOL))] if ("a%sr" % g) in kw else None
        for a in items:
            ge.append(_elem('i', a, None))
        ge.append(_elem('ref', ref, None))
        if not ref_table("key", [(_val_a(a),) for a in items], [(_val_a(ref),)]):
            ok = False
    errors = list(_schema("scoped", CFG["version"]).iter_errors(root))
    return (not errors) == ok


def h_idref(**kw) -> bool:
    root = ET.Element('r')
    ids, refs = [], []
    for k in range(len(kw) // 2):
        i = ID_POOL[pick(kw["id%d" % k], len(ID_POOL))]
        r = REF_POOL[pick(kw["rf%d" % k], len(REF_POOL))]
        attrs = {}
        if i is not None:
            attrs["id"] = i
            ids.append(i)
        if r is not None:
            attrs["ref"] = r
            refs.append(r)
        ET.SubElement(root, 'n', attrs)
    want = len(set(ids)) == len(ids) and all(r in ids for r in refs)
    errors = list(_schema("idref", CFG["version"]).iter_errors(root))
    return (not errors) == want


_XT_XSD = """<xs:schema xmlns:xs="http://www.w3.org/2001/XMLSchema">
 <xs:complexType name="T0"><xs:sequence/><xs:attribute name="k" type="xs:decimal"/></xs:complexType>
 <xs:complexType name="T1"><xs:complexContent><xs:extension base="T0"><xs:sequence>
   <xs:element name="sub" minOccurs="0" maxOccurs="unbounded"><xs:complexType><xs:attribute name="a" type="xs:decimal"/></xs:complexType></xs:element>
 </xs:sequence></xs:extension></xs:complexContent></xs:complexType>
 <xs:element name="r"><xs:complexType><xs:sequence><xs:element name="i" type="T0" maxOccurs="unbounded"/></xs:sequence></xs:complexType>
  <xs:key name="K"><xs:selector xpath="i/sub"/><xs:field xpath="@a"/></xs:key></xs:element></xs:schema>"""
XSI_NS = 'http://www.w3.org/2001/XMLSchema-instance'


def region_key_through_xsitype_duplicates(**kw):
    """known finding C08-key-through-xsitype: the two sub elements (present only through xsi:type) carry equal key values"""
    a0 = A_POOL[pick(kw["ax0"], len(A_POOL))]
    a1 = A_POOL[pick(kw["ax1"], len(A_POOL))]
    return a0 is not None and a1 is not None and _val_a(a0) == _val_a(a1) or a0 is None or a1 is None


def pre_xt(fn, **kw):
    for v in kw.values():
        if not (0 <= v < len(A_POOL)):
            return False
    from engine.known import open_regions
    for pred in open_regions(__name__, fn):
        if globals()[pred](**kw):
            return False
    return True


def h_xsitype_key(**kw) -> bool:
    """key whose selected nodes exist only in content added by an xsi:type'd derived type"""
    key = ("xsitype", CFG["version"])
    if key not in _S:
        cls = xmlschema.XMLSchema10 if CFG["version"] == "1.0" else xmlschema.XMLSchema11
        raise RuntimeError("schema not built")
    a0 = A_POOL[pick(kw["ax0"], len(A_POOL))]
    a1 = A_POOL[pick(kw["ax1"], len(A_POOL))]
    root = ET.Element('r')
    i = ET.SubElement(root, 'i', {'{%s}type' % XSI_NS: 'T1'})
    for a in (a0, a1):
        ET.SubElement(i, 'sub', {} if a is None else {'a': a})
    errors = list(_S[key].iter_errors(root))
    want = ref_table("key", [(_val_a(a0),), (_val_a(a1),)])
    return (not errors) == want


# ------------------------------------------------------------------ fields that are child elements with a default value
_CD_XSD = """<xs:schema xmlns:xs="http://www.w3.org/2001/XMLSchema"><xs:element name="r"><xs:complexType><xs:sequence>
 <xs:element name="i" minOccurs="0" maxOccurs="unbounded"><xs:complexType><xs:sequence>
    <xs:element name="code" type="xs:decimal" default="7" minOccurs="0"/></xs:sequence></xs:complexType></xs:element>
 </xs:sequence></xs:complexType>
 <xs:%s name="C"><xs:selector xpath="i"/><xs:field xpath="code"/></xs:%s></xs:element></xs:schema>"""
CD_POOL = [None, "", "7", "7.0", "1"]          # child absent / present and empty (takes the default 7) / explicit values


def _cd_schema(kind, version):
    key = ("childdef", kind, version)
    if key not in _S:
        cls = xmlschema.XMLSchema10 if version == "1.0" else xmlschema.XMLSchema11
        _S[key] = cls(_CD_XSD % (kind, kind))
    return _S[key]


def pre_cd(fn, c0, c1):
    return 0 <= c0 < len(CD_POOL) and 0 <= c1 < len(CD_POOL)


def h_child_default(c0: int, c1: int) -> bool:
    """the field is an optional child element with a default: an ABSENT child gives no field value (the default applies to
    present-and-empty elements only, Structures 3.3.4 "Element Default Value")"""
    kind = CFG["kind"]
    s = _cd_schema(kind, CFG["version"])
    root = ET.Element('r')
    vals = []
    for c in (CD_POOL[pick(c0, len(CD_POOL))], CD_POOL[pick(c1, len(CD_POOL))]):
        i = ET.SubElement(root, 'i')
        if c is not None:
            ET.SubElement(i, 'code').text = c
        vals.append((None if c is None else Decimal(c or "7"),))
    errors = list(s.iter_errors(root))
    return (not errors) == ref_table(kind, vals)


# ------------------------------------------------------------------ one declaration, two constraint scopes, xsi:type in both
_XT2_XSD = """<xs:schema xmlns:xs="http://www.w3.org/2001/XMLSchema">
 <xs:complexType name="T0"><xs:sequence/></xs:complexType>
 <xs:complexType name="T1"><xs:complexContent><xs:extension base="T0"><xs:sequence>
   <xs:element name="sub" minOccurs="0" maxOccurs="unbounded"><xs:complexType><xs:attribute name="a" type="xs:decimal"/></xs:complexType></xs:element>
 </xs:sequence></xs:extension></xs:complexContent></xs:complexType>
 <xs:element name="g" type="T0"/>
 <xs:element name="r"><xs:complexType><xs:sequence>
   <xs:element name="A" minOccurs="0"><xs:complexType><xs:sequence><xs:element ref="g" maxOccurs="unbounded"/></xs:sequence></xs:complexType>
      <xs:key name="KA"><xs:selector xpath="g/sub"/><xs:field xpath="@a"/></xs:key></xs:element>
   <xs:element name="B" minOccurs="0"><xs:complexType><xs:sequence><xs:element ref="g" maxOccurs="unbounded"/></xs:sequence></xs:complexType>
      <xs:key name="KB"><xs:selector xpath="g/sub"/><xs:field xpath="@a"/></xs:key></xs:element>
 </xs:sequence></xs:complexType></xs:element></xs:schema>"""


XT2_POOL = [None, "1", "2", "1.0"]          # the first three admit valid tables (1, 2), duplicates (1, 1) and missing fields


def pre_xt2(fn, **kw):
    return all(0 <= v < CFG.get("apool", len(XT2_POOL)) for v in kw.values())


def h_xsitype_two_scopes(**kw) -> bool:
    """the same global element, substituted through xsi:type, under two parents with their own keys: each scope is enforced"""
    key = ("xsitype2", CFG["version"])
    if key not in _S:
        raise RuntimeError("schema not built")
    root = ET.Element('r')
    rows = {}
    for scope in ("A", "B"):
        p = ET.SubElement(root, scope)
        g = ET.SubElement(p, 'g', {'{%s}type' % XSI_NS: 'T1'})
        rows[scope] = []
        for j in (0, 1):
            a = XT2_POOL[pick(kw["a%s%d" % (scope, j)], len(XT2_POOL))]
            ET.SubElement(g, 'sub', {} if a is None else {'a': a})
            rows[scope].append((_val_a(a),))
    errors = list(_S[key].iter_errors(root))
    return (not errors) == (ref_table("key", rows["A"]) and ref_table("key", rows["B"]))


def explain(fn, args):
    return "template=%s version=%s args=%r" % (CFG["template"], CFG["version"], args)


META = {
    "level": "model_checking",
    "symbolic_kind": "finite-choice tables of field tuples (lexical variants of equal values, absent fields)",
    "functions": [
        "xmlschema.validators.elements.XsdElement.collect_key_fields",
        "xmlschema.validators.identities.IdentityCounter.increase",
        "xmlschema.validators.identities.KeyrefCounter.iter_errors",
        "xmlschema.validators.identities.FieldValueSelector.get_value",
        "xmlschema.validators.schemas.XMLSchemaBase._validate_references",
        "xmlschema.validators.simple_types.XsdAtomicBuiltin.raw_decode",
    ],
    "bounds": {},
    "outside": "XPath selector syntax variety (fixed to child/attribute steps), more than 2 fields, field types beyond decimal/boolean, element-content fields",
    "stubs": [],
    "assumptions": ["reference = XSD Structures 3.11.4: qualified node set = selected nodes whose fields are all present"],
}


def obligations(tier, seed):
    quick = tier == "quick"
    out = []
    for version in ("1.0", "1.1"):
        plans = [("key1", ["i0", "i1"], ["r0"]), ("unique2", ["i0", "i1"], []), ("key2", ["i0"], ["r0"]), ("uniqueref2", ["i0"], ["r0"])]
        if not quick:
            # (two-field templates with 2 items + 1 reference = 6 symbolic indices did not finish in 3000 s: the two-field rows stay at
            # 1 item + 1 reference and 2 items + 0 references; the one-field template carries the larger tables)
            plans += [("key1", ["i0", "i1"], ["r0", "r1"]), ("key1", ["i0", "i1", "i2"], ["r0"])]
        for template, items, refs in plans:
            two = template.endswith("2")
            args = []
            for t in items + refs:
                args.append(["a" + t, "int"])
                if two:
                    args.append(["b" + t, "int"])
            out.append({"name": "table/%s/%s/%di%dr" % (version, template, len(items), len(refs)), "fn": "h_table", "pre": "pre_rows", "args": args,
                        "config": {"template": template, "version": version, "bpool": 3 if (quick or len(items) + len(refs) > 2) else 4}, "timeout": 500 if quick else 3000, "twin_timeout": 30,
                        "bound": "%d item rows, %d reference rows; field a from %r, b from %r" % (len(items), len(refs), A_POOL, B_POOL)})
        if not quick or version == "1.0":
            out.append({"name": "scoped/%s" % version, "fn": "h_scoped", "pre": "pre_rows",
                        "args": [["ag1i0", "int"], ["ag1i1", "int"], ["ag2i0", "int"], ["ag1r", "int"]] + ([] if quick else [["ag2r", "int"]]),
                        "config": {"template": "scoped", "version": version, "spool": 3 if quick else 4}, "timeout": 900 if quick else 3000, "twin_timeout": 30,
                        "bound": "two scopes (2+1 items, 1 reference each), field a from %r" % (S_POOL,)})
        out.append({"name": "xsitype-key/%s" % version, "fn": "h_xsitype_key", "pre": "pre_xt", "args": [["ax0", "int"], ["ax1", "int"]],
                    "config": {"template": "xsitype", "version": version}, "timeout": 400, "twin_timeout": 30,
                    "bound": "two key-selected elements inside xsi:type'd content, field from %r" % (A_POOL,)})
        for kind in ("key", "unique"):
            out.append({"name": "child-default/%s/%s" % (version, kind), "fn": "h_child_default", "pre": "pre_cd", "args": [["c0", "int"], ["c1", "int"]],
                        "config": {"template": "childdef", "kind": kind, "version": version}, "timeout": 300, "twin_timeout": 30,
                        "bound": "two selected nodes whose field is an optional child with a default: child from %r" % (CD_POOL,)})
        out.append({"name": "xsitype-two-scopes/%s" % version, "fn": "h_xsitype_two_scopes", "pre": "pre_xt2",
                    "args": [["aA0", "int"], ["aA1", "int"], ["aB0", "int"], ["aB1", "int"]],
                    "config": {"template": "xsitype2", "version": version, "apool": 3 if quick else len(XT2_POOL)}, "timeout": 600 if quick else 3000, "twin_timeout": 30,
                    "bound": "a global element under two parents with their own keys, xsi:type'd content with 2 selected nodes each, field from %r" % (XT2_POOL[:3 if quick else len(XT2_POOL)],)})
        out.append({"name": "idref/%s" % version, "fn": "h_idref", "pre": "pre_rows",
                    "args": [["id%d" % k, "int"] for k in range(2 if quick else 3)] + [["rf%d" % k, "int"] for k in range(2 if quick else 3)],
                    "config": {"template": "idref", "version": version}, "timeout": 500 if quick else 3000, "twin_timeout": 30,
                    "bound": "%d nodes, id from %r, ref from %r" % (2 if quick else 3, ID_POOL, REF_POOL)})
    return out
