"""C11 - every input ends in a verdict or a library error; documented limits hold.

Part 1 (Engine A, P3+P2): XMLResource construction / lazy iteration over a SYMBOLIC well-nested event script delivered
through the public iterparse= extension point, with SYMBOLIC integer limits: XMLResourceExceeded is raised exactly when
the script's depth exceeds MAX_XML_DEPTH (eager and lazy) or its element count exceeds MAX_XML_ELEMENTS (eager only),
as documented in xmlschema/limits.py ("raised if this limit is exceeded").
Part 2 (Engine B, z3): recursion budget - frames per nesting level measured on the running tree, query for a depth
within MAX_XML_DEPTH that exhausts the interpreter's recursion limit; the model is replayed on a real document.
Part 3 (Engine A, P1): exceptions escaping validation of symbolic text for builtin types.
"""
import io
import sys
import xml.etree.ElementTree as ET
from typing import List

import xmlschema
from xmlschema import XMLResource, _limits
from xmlschema.exceptions import XMLResourceExceeded, XMLSchemaException

ID = "C11"
CFG = {"lazy": False, "maxlen": 8, "maxlim": 5, "version": "1.0", "type": "integer"}


def configure(cfg):
    CFG.update(cfg)
    if "type" in cfg:
        _escape_schema(CFG["version"])        # schemas are built outside the tracer (construction cannot run under it)
    if cfg.get("xsi"):
        _xsi_schema(CFG["version"])
    if cfg.get("arith"):
        _arith_schema(CFG["version"])
    if cfg.get("ew"):
        _ew_schema(CFG["version"])


def _profile(ops):
    """(well_nested, max_depth, elements) of a start(True)/end(False) script forming ONE root element"""
    depth = 0
    maxd = 0
    count = 0
    n = len(ops)
    for i in range(n):
        if ops[i]:
            if depth == 0 and i > 0:
                return False, 0, 0        # second root
            depth += 1
            count += 1
            if depth > maxd:
                maxd = depth
        else:
            depth -= 1
            if depth < 0:
                return False, 0, 0
    return depth == 0 and count > 0, maxd, count


def pre_limits(fn, ops, ns, dlim, elim):
    if len(ops) > CFG["maxlen"] or not (1 <= dlim <= CFG["maxlim"]) or not (1 <= elim <= CFG["maxlim"]):
        return False
    ok, _, count = _profile(ops)
    if not (ok and len(ns) == count):
        return False
    if CFG.get("max_ns") is not None:
        k = 0
        for b in ns:
            if b:
                k += 1
        if k > CFG["max_ns"]:
            return False
    return True


def _make_stub(ops, ns):
    """the documented event order of ElementTree.iterparse: 'start-ns' events precede the 'start' of the element that
    declares the namespace, the matching 'end-ns' follows its 'end'"""
    def stub(fp, events=None):
        stack = []
        k = 0
        for op in ops:
            if op:
                declares = ns[k]
                k += 1
                if declares:
                    yield 'start-ns', ('p', 'u')
                e = ET.Element('e')
                if stack:
                    stack[-1][0].append(e)
                stack.append((e, declares))
                yield 'start', e
            else:
                e, declares = stack.pop()
                yield 'end', e
                if declares:
                    yield 'end-ns', None
    return stub


def h_limits(ops: List[bool], ns: List[bool], dlim: int, elim: int) -> bool:
    ok, maxd, count = _profile(ops)
    # the limits are set the documented way, through the attributes of the public module xmlschema.limits
    from xmlschema import limits as public_limits
    old = public_limits.MAX_XML_DEPTH, public_limits.MAX_XML_ELEMENTS
    public_limits.MAX_XML_DEPTH = dlim
    public_limits.MAX_XML_ELEMENTS = elim
    try:
        try:
            if CFG["lazy"]:
                res = XMLResource(io.StringIO('x'), lazy=True, iterparse=_make_stub(ops, ns))
                for _ in res.iter():
                    pass
                want = maxd > dlim
            else:
                XMLResource(io.StringIO('x'), iterparse=_make_stub(ops, ns))
                want = maxd > dlim or count > elim
            raised = False
        except XMLResourceExceeded:
            raised = True
            want = (maxd > dlim) if CFG["lazy"] else (maxd > dlim or count > elim)
    finally:
        public_limits.MAX_XML_DEPTH, public_limits.MAX_XML_ELEMENTS = old
    return raised == want


def explain(fn, args):
    if fn == "h_escape":
        return explain_escape(args)
    if fn == "h_arith":
        return "XSD %s arithmetic escape args %r (dates %r durations %r years %r ints %r)" % (CFG["version"], args, A_DATES, A_DURS, A_YEARS, A_INTS)
    if fn == "h_xsi":
        return "XSD %s document %s" % (CFG["version"], ET.tostring(_xsi_doc(args)).decode())
    if fn != "h_limits":
        return ""
    ops = args["ops"]
    ok, maxd, count = _profile(ops)
    return "script %s xmlns-per-element=%s depth=%d elements=%d MAX_XML_DEPTH=%d MAX_XML_ELEMENTS=%d lazy=%s" % (
        ''.join('<' if o else '>' for o in ops), args.get("ns"), maxd, count, args["dlim"], args["elim"], CFG["lazy"])


META = {
    "level": "model_checking",
    "symbolic_kind": "integer (limits), finite-choice event scripts, string",
    "functions": [
        "xmlschema.resources.xml_loader.XMLResourceLoader._parse",
        "xmlschema.resources.xml_loader.XMLResourceLoader._lazy_iterparse",
        "xmlschema.resources.xml_resource.XMLResource.iter",
        "xmlschema.resources.xml_resource.XMLResource.__init__",
    ],
    "bounds": {},
    "outside": "truncated/garbled byte streams (expat is C code), memory exhaustion",
    "stubs": ["iterparse= stub: a generator emitting a symbolic well-nested start/end script and building the tree as TreeBuilder does",
              "xmlschema._limits.MAX_XML_DEPTH / MAX_XML_ELEMENTS rebound to symbolic ints for the call"],
    "assumptions": ["documented meaning of the limits: refused only when EXCEEDED (xmlschema/limits.py docstrings)"],
}


def obligations(tier, seed):
    quick = tier == "quick"
    out = []
    for lazy in (False, True):
        for ml in ((8, 10) if quick else (8, 10, 11)):
            out.append({"name": "limits/%s/len%d" % ("lazy" if lazy else "eager", ml), "fn": "h_limits", "pre": "pre_limits",
                        "args": [["ops", "List[bool]"], ["ns", "List[bool]"], ["dlim", "int"], ["elim", "int"]],
                        "config": {"lazy": lazy, "maxlen": ml, "maxlim": ml // 2 if quick else 6, "max_ns": 1 if quick else None},
                        "timeout": 400 if quick else 2400, "twin_timeout": 30,
                        "bound": "event scripts <= %d start/end events, %s declaring a namespace (start-ns/end-ns events), limits in [1,%d]" % (ml, "at most one element" if quick else "any subset of the elements", ml // 2 if quick else 6)})
    import random
    rnd = random.Random(seed)
    for version in ("1.0", "1.1"):
        names = builtin_names(version)
        sel = names if not quick else sorted(set(rnd.sample(names, 7) + [n for n in ("gYear", "dateTime", "duration", "QName", "IDREFS") if version == "1.0"]
                                                   + [n for n in ("QName",) if version == "1.1"]))
        for j, n in enumerate(sel):
            # quick: 2 tokens of the first 12; thorough: 2 tokens of all 19 for every type, 3 tokens of the first 8 for every third type
            plans = [(2, 12)] if quick else [(2, len(TOKENS))] + ([(3, 8)] if j % 3 == 0 else [])
            for k, ntok in plans:
                out.append({"name": "escape/%s/%s%s" % (version, n, "" if len(plans) == 1 or k == 2 else "/3tok"), "fn": "h_escape", "pre": "pre_tokens",
                            "args": [["t%d" % i, "int"] for i in range(k)], "config": {"version": version, "type": n, "ntok": ntok},
                            "timeout": 200 if quick else 1500, "twin_timeout": 30,
                            "bound": "text = %d tokens from %r (finite choice)" % (k, TOKENS[:ntok])})
    for version in ("1.0", "1.1"):
        for w in range(len(XSI_WHERE)):
            if quick and XSI_WHERE[w] in ("c",):
                continue
            for grp in ((("t", "s"), ("t", "n")) if quick else (("t", "n", "s"),)):
                if quick and grp == ("t", "n") and XSI_WHERE[w] not in ("n", "r"):
                    continue
                out.append({"name": "xsi/%s/on-%s/%s" % (version, XSI_WHERE[w], "+".join(grp)), "fn": "h_xsi", "pre": "pre_xsi",
                            "args": [[g, "int"] for g in grp] + [["w", "int"]],
                            "config": {"version": version, "xsi": True, "fixed_w": w}, "timeout": 300 if quick else 1500, "twin_timeout": 30,
                            "bound": "xsi:type from %r%s%s on element %s" % (XSI_TYPES, " x xsi:nil from %r" % (XSI_NILS,) if "n" in grp else "",
                                                                            " x stray %r" % (XSI_STRAY,) if "s" in grp else "", XSI_WHERE[w])})
    for version in ("1.0", "1.1"):
        out.append({"name": "empty-wildcard/%s" % version, "fn": "h_empty_wildcard", "pre": "pre_ew", "args": [["c", "int"]],
                    "config": {"version": version, "ew": True}, "timeout": 200, "twin_timeout": 30,
                    "bound": "children %r under a model with a required strict wildcard that admits no positive namespace" % (EW_KIDS,)})
    for name, version, args_q, args_t in (("arith/1.0/fields", "1.0", ("k", "p"), ("k", "p", "y")), ("arith/1.1/alternatives", "1.1", ("m", "d"), ("m", "d", "y")),
                                        ("arith/1.1/years", "1.1", ("y", "k"), ("y", "k", "p"))):
        a = args_q if quick else args_t
        out.append({"name": name, "fn": "h_arith", "pre": "pre_arith", "args": [[x, "int"] for x in a],
                    "config": {"version": version, "arith": True, "with_e": version == "1.1"}, "timeout": 400 if quick else 2400, "twin_timeout": 30,
                    "bound": "identity fields (date %r, duration %r, gYear %r) and, in XSD 1.1, type-alternative tests over integers %r; symbolic: %r" % (
                        A_DATES, A_DURS, A_YEARS, A_INTS, a)})
    for api in ("is_valid", "decode"):
        out.append({"name": "recursion/%s" % api, "engine": "smt", "fn": "smt_recursion", "config": {"api": api}, "timeout": 120,
                    "bound": "all depths 1..MAX_XML_DEPTH (linear frame model measured at depths 5, 10, 20)"})
    return out


# ---------------------------------------------------------------- Part 2: recursion budget (Engine B, z3)

_REC_XSD = """<xs:schema xmlns:xs="http://www.w3.org/2001/XMLSchema">
  <xs:element name="a"><xs:complexType><xs:sequence><xs:element ref="a" minOccurs="0" maxOccurs="unbounded"/></xs:sequence>
  </xs:complexType></xs:element></xs:schema>"""


def _nested(d):
    return '<a>' * d + '</a>' * d


def _frames_used(schema, d, api):
    """maximum interpreter frame depth reached while processing a document of nesting depth d, relative to the caller"""
    base = len(_stack())
    peak = [0]

    def prof(frame, event, arg):
        if event == 'call':
            n = 0
            f = frame
            while f is not None:
                n += 1
                f = f.f_back
            if n > peak[0]:
                peak[0] = n
    doc = _nested(d)
    sys.setprofile(prof)
    try:
        if api == 'is_valid':
            schema.is_valid(doc)
        else:
            schema.decode(doc, validation='lax')
    finally:
        sys.setprofile(None)
    return peak[0] - base


def _stack():
    out = []
    f = sys._getframe()
    while f is not None:
        out.append(f)
        f = f.f_back
    return out


def smt_recursion(config):
    """frames(d) = b + k*d is measured on the live code at three depths (linearity asserted); z3 decides whether some
    depth d <= MAX_XML_DEPTH needs more frames than sys.getrecursionlimit() allows"""
    import time
    import z3
    api = config.get("api", "is_valid")
    schema = xmlschema.XMLSchema10(_REC_XSD)
    f5, f10, f20 = (_frames_used(schema, d, api) for d in (5, 10, 20))
    k1, k2 = (f10 - f5), (f20 - f10)
    if k1 * 2 != k2 or k1 % 5:
        return {"status": "unknown", "error": "frame usage not linear in depth: %s" % ((f5, f10, f20),), "queries": 0}
    k = k1 // 5
    b = f5 - 5 * k
    limit = sys.getrecursionlimit()
    maxd = _limits.MAX_XML_DEPTH
    d = z3.Int('d')
    s = z3.Optimize()
    t0 = time.perf_counter()
    s.add(d >= 1, d <= maxd)
    # frames available to the library: recursion limit minus what a caller at module level already uses (1 frame)
    s.add(b + k * d + 1 > limit)
    from engine.known import open_regions
    for pred in open_regions(__name__, "smt_recursion"):
        s.add(z3.Not(globals()[pred](d)))          # search only outside the recorded finding
    s.minimize(d)
    r = s.check()
    dt = time.perf_counter() - t0
    out = {"queries": 1, "solver_s": round(dt, 4), "functions": ["xmlschema.validators.elements.XsdElement.raw_decode",
                                                                  "xmlschema.validators.groups.XsdGroup.raw_decode"],
           "samples": [{"frames_at_depth": {"5": f5, "10": f10, "20": f20}, "k": k, "b": b, "recursion_limit": limit, "MAX_XML_DEPTH": maxd}]}
    if str(r) == 'unsat':
        out["status"] = "unsat"
    elif str(r) == 'sat':
        dv = s.model()[d].as_long()
        out["status"] = "sat"
        out["cex"] = [{"args": {"__kw__": {"d": dv, "api": api}}, "replay_fn": "replay_recursion",
                       "message": "depth %d <= MAX_XML_DEPTH=%d needs %d+%d*d frames > recursion limit %d" % (dv, maxd, b, k, limit)}]
    else:
        out["status"] = "unknown"
    return out


def region_recursion_depth_496(d):
    """known finding C11-recursion-depth: nesting depth >= 496 exhausts the default recursion limit (1000)"""
    return d >= 496


def replay_recursion(d, api="is_valid") -> bool:
    """plain interpreter: True iff a document of depth d (within the documented depth limit) ends in a verdict or a
    library exception"""
    if d > _limits.MAX_XML_DEPTH:
        return True
    schema = xmlschema.XMLSchema10(_REC_XSD)
    try:
        if api == 'is_valid':
            schema.is_valid(_nested(d))
        else:
            schema.decode(_nested(d), validation='lax')
    except XMLSchemaException:
        return True
    except RecursionError:
        return False
    return True


# ---------------------------------------------------------------- Part 3: exceptions escaping simple-type decoding

TOKENS = ['9' * 20, '-', '1', ':', 'T', 'Z', '.', 'E', ' ', 'p:a', 'P', '0', '\xa0', 'INF', '+', 'x', '٣', '_', '%']
_ESC = {}


def _escape_schema(version):
    if version not in _ESC:
        cls = xmlschema.XMLSchema10 if version == '1.0' else xmlschema.XMLSchema11
        from xmlschema.validators import builtins as _b
        table = _b.XSD_10_BUILTIN_TYPES if version == '1.0' else _b.XSD_11_BUILTIN_TYPES
        names = sorted(set(d['name'].split('}')[1] for d in table) | {'IDREFS', 'NMTOKENS', 'ENTITIES'})
        names = [n for n in names if n not in ('anySimpleType', 'anyAtomicType', 'error', 'anyType', 'NOTATION')]
        decl = ''.join('<xs:element name="e_%s" type="xs:%s"/>' % (n, n) for n in names)
        _ESC[version] = (cls('<xs:schema xmlns:xs="http://www.w3.org/2001/XMLSchema">%s</xs:schema>' % decl), names)
    return _ESC[version]


def builtin_names(version):
    return _escape_schema(version)[1]


def pre_tokens(fn, **kw):
    for v in kw.values():
        if not (0 <= v < CFG.get("ntok", len(TOKENS))):
            return False
    return True


def h_escape(**kw) -> bool:
    """finite-choice lexical mutations (token strings chosen by symbolic indices): whatever the text, validation and
    lax decoding end in a verdict or raise only exceptions of the library's hierarchy"""
    from engine.sym import pick
    schema, names = _escape_schema(CFG["version"])
    text = ''.join(TOKENS[pick(kw["t%d" % k], len(TOKENS))] for k in range(len(kw)))
    elem = ET.Element('e_' + CFG["type"])
    elem.text = text
    try:
        list(schema.iter_errors(elem))
        schema.decode(elem, validation='lax', datetime_types=True, binary_types=True)
        schema.decode(elem, validation='skip')
    except Exception:
        return False         # lax and skip modes never raise for invalid content
    try:
        schema.decode(elem, validation='strict')
    except XMLSchemaException:
        pass                 # strict mode: the library's own hierarchy only
    return True


# ---------------------------------------------------------------- stray / malformed xsi:* attributes (finite choice)
_XSI_XSD = """<xs:schema xmlns:xs="http://www.w3.org/2001/XMLSchema">
 <xs:element name="r"><xs:complexType><xs:sequence>
   <xs:element name="i" type="xs:string" minOccurs="0"/>
   <xs:element name="n" type="xs:int" nillable="true" minOccurs="0"/>
   <xs:element name="c" minOccurs="0"><xs:complexType><xs:sequence><xs:element name="d" type="xs:decimal" minOccurs="0"/></xs:sequence><xs:attribute name="a"/></xs:complexType></xs:element>
   <xs:any namespace="##other" processContents="lax" minOccurs="0"/>
 </xs:sequence></xs:complexType></xs:element></xs:schema>"""
XSI_NS = 'http://www.w3.org/2001/XMLSchema-instance'
XSI_TYPES = [None, 'xs:int', 'xs:string', 'nope', 'p:nope', '', 'xs:nope', 'a:b:c', ' xs:decimal ', ':', 'xs:']
XSI_NILS = [None, 'true', 'false', 'maybe', '', ' 1 ']
XSI_STRAY = [None, ('kind', 'x'), ('schemaLocation', 'a'), ('noNamespaceSchemaLocation', 'u u'), ('type ', 'xs:int')]
XSI_WHERE = ["i", "n", "c", "d", "z", "r"]
_XSI = {}


def _xsi_schema(version):
    if version not in _XSI:
        cls = xmlschema.XMLSchema10 if version == '1.0' else xmlschema.XMLSchema11
        _XSI[version] = cls(_XSI_XSD)
    return _XSI[version]


def pre_xsi(fn, **kw):
    lim = {"t": len(XSI_TYPES), "n": len(XSI_NILS), "s": len(XSI_STRAY), "w": len(XSI_WHERE)}
    if "fixed_w" in CFG and kw.get("w") != CFG["fixed_w"]:
        return False
    return all(0 <= v < lim[k] for k, v in kw.items())


def _xsi_doc(kw):
    from engine.sym import pick
    t = XSI_TYPES[pick(kw["t"], len(XSI_TYPES))]
    n = XSI_NILS[pick(kw["n"], len(XSI_NILS))] if "n" in kw else None
    st = XSI_STRAY[pick(kw["s"], len(XSI_STRAY))] if "s" in kw else None
    where = XSI_WHERE[pick(kw["w"], len(XSI_WHERE))]
    root = ET.Element('r')
    nodes = {"r": root}
    nodes["i"] = ET.SubElement(root, 'i')
    nodes["i"].text = 'x'
    nodes["n"] = ET.SubElement(root, 'n')
    nodes["n"].text = '1'
    nodes["c"] = ET.SubElement(root, 'c')
    nodes["d"] = ET.SubElement(nodes["c"], 'd')
    nodes["d"].text = '1.5'
    nodes["z"] = ET.SubElement(root, '{urn:z}z')
    target = nodes[where]
    if t is not None:
        target.set('{%s}type' % XSI_NS, t)
    if n is not None:
        target.set('{%s}nil' % XSI_NS, n)
    if st is not None:
        target.set('{%s}%s' % (XSI_NS, st[0]), st[1])
    return root


def h_xsi(**kw) -> bool:
    """xsi:type / xsi:nil / stray xsi attributes with odd values on any element: lax validation and lax/skip decoding
    return (they never raise for invalid content), strict mode raises only the library's own exceptions"""
    schema = _xsi_schema(CFG["version"])
    root = _xsi_doc(kw)
    ns = {'xs': 'http://www.w3.org/2001/XMLSchema'}
    try:
        list(schema.iter_errors(root, namespaces=ns))
        schema.is_valid(root, namespaces=ns)
        schema.decode(root, validation='lax', namespaces=ns)
        schema.decode(root, validation='skip', namespaces=ns)
    except Exception:
        return False
    try:
        schema.validate(root, namespaces=ns)
        schema.decode(root, namespaces=ns)
    except XMLSchemaException:
        pass
    return True


# ---------------------------------------------------------------- arithmetic escapes: identity fields and type alternatives
_ARITH_XSD = """<xs:schema xmlns:xs="http://www.w3.org/2001/XMLSchema"><xs:element name="root"><xs:complexType><xs:sequence>
 <xs:element name="a" maxOccurs="unbounded"><xs:complexType><xs:simpleContent><xs:extension base="xs:gYear">
   <xs:attribute name="k" type="xs:date"/><xs:attribute name="p" type="xs:duration"/></xs:extension></xs:simpleContent></xs:complexType></xs:element>
 %s
 </xs:sequence></xs:complexType>
 <xs:unique name="u"><xs:selector xpath="a"/><xs:field xpath="@k"/></xs:unique>
 <xs:unique name="v"><xs:selector xpath="a"/><xs:field xpath="@p"/></xs:unique>
 <xs:unique name="w"><xs:selector xpath="a"/><xs:field xpath="."/></xs:unique></xs:element></xs:schema>"""
_ALT_11 = ('<xs:element name="e" type="xs:string" minOccurs="0"><xs:alternative test="xs:integer(@m) mod xs:integer(@d) = 1" type="xs:token"/>'
           '<xs:alternative test="xs:gYear(@y) = xs:gYear(\'2000\')" type="xs:NMTOKEN"/></xs:element>')
_ALT_10 = '<xs:element name="e" type="xs:string" minOccurs="0"/>'
A_DATES = ['2000-01-01', '999999999999-01-01', '-999999999999-01-01', 'x']
A_DURS = ['P1Y', 'P999999999999999999999Y', 'PT1S', '']
A_YEARS = ['2000', '99999999999999999', '-99999999999999999', 'y']
A_INTS = ['5', '0', 'x', '99999999999999999999']
_AR = {}


def _arith_schema(version):
    if version not in _AR:
        cls = xmlschema.XMLSchema10 if version == '1.0' else xmlschema.XMLSchema11
        _AR[version] = cls(_ARITH_XSD % (_ALT_11 if version == '1.1' else _ALT_10))
    return _AR[version]


def pre_arith(fn, **kw):
    return all(0 <= v < 4 for v in kw.values())


def h_arith(**kw) -> bool:
    """huge years / durations in identity fields and in XSD 1.1 type-alternative tests: lax validation and lax/skip decoding
    return, strict mode raises only the library's own exceptions"""
    from engine.sym import pick
    schema = _arith_schema(CFG["version"])
    root = ET.Element('root')
    a1 = ET.SubElement(root, 'a', {"k": A_DATES[pick(kw["k"], 4)] if "k" in kw else A_DATES[0], "p": A_DURS[pick(kw["p"], 4)] if "p" in kw else A_DURS[0]})
    yi = pick(kw["y"], 4) if "y" in kw else 0
    a1.text = A_YEARS[yi]
    a2 = ET.SubElement(root, 'a', {"k": "2000-01-01", "p": "P1Y"})
    a2.text = "2000"
    if CFG.get("with_e"):
        e = ET.SubElement(root, 'e', {"m": A_INTS[pick(kw["m"], 4)] if "m" in kw else A_INTS[0], "d": A_INTS[pick(kw["d"], 4)] if "d" in kw else A_INTS[0],
                                      "y": A_YEARS[yi]})
        e.text = 'v'
    try:
        list(schema.iter_errors(root))
        schema.is_valid(root)
        schema.decode(root, validation='lax')
        schema.decode(root, validation='skip')
    except Exception:
        return False
    try:
        schema.decode(root)
    except XMLSchemaException:
        pass
    return True


# ---------------------------------------------------------------- content-model errors next to a wildcard that admits nothing
_EW_XSD = """<xs:schema xmlns:xs="http://www.w3.org/2001/XMLSchema"><xs:element name="root"><xs:complexType><xs:sequence>
 <xs:element name="a" minOccurs="0"/><xs:any %s processContents="strict"/><xs:element name="b" minOccurs="0"/>
 </xs:sequence></xs:complexType></xs:element></xs:schema>"""
EW_KIDS = [[], ['a'], ['zz'], ['a', 'b'], ['{urn:x}q'], ['b']]
_EW = {}


def _ew_schema(version):
    if version not in _EW:
        cls = xmlschema.XMLSchema10 if version == '1.0' else xmlschema.XMLSchema11
        # XSD 1.0: an empty namespace list; XSD 1.1: a wildcard constrained only by notNamespace (empty positive set)
        _EW[version] = cls(_EW_XSD % ('namespace=""' if version == '1.0' else 'notNamespace="urn:x ##local"'))
    return _EW[version]


def pre_ew(fn, c):
    return 0 <= c < len(EW_KIDS)


def h_empty_wildcard(c: int) -> bool:
    """a required strict wildcard with an empty positive namespace set among the expected particles of a content-model
    error: lax validation and decoding return, strict raises only the library's exceptions"""
    from engine.sym import pick
    schema = _ew_schema(CFG["version"])
    root = ET.Element('root')
    for t in EW_KIDS[pick(c, len(EW_KIDS))]:
        ET.SubElement(root, t)
    try:
        list(schema.iter_errors(root))
        schema.is_valid(root)
        schema.decode(root, validation='lax')
        schema.decode(root, validation='skip')
    except Exception:
        return False
    try:
        schema.decode(root)
    except XMLSchemaException:
        pass
    return True


def explain_escape(args):
    return "type xs:%s text %r" % (CFG["type"], ''.join(TOKENS[args["t%d" % k]] for k in range(len(args))))
