"""C14 - accepted type restrictions only ever narrow what instances are valid.

Engine A (CrossHair):
  * occurrence kernel - ParticleMixin.has_occurs_restriction and OccursCalculator on SYMBOLIC, unbounded integers:
    an accepted occurrence restriction implies range inclusion for every count; calculator sums/products equal the
    interval arithmetic of the particle ranges.
  * content models (P2) - base and derived groups are parsed by the real parser inside one schema (complexContent
    restriction, lax mode so that the parser's own verdict does not interfere); the derived group's occurrence classes are
    chosen by symbolic indices; the real derived.is_restriction(base) runs under the tracer and, whenever it answers
    True, every word up to the bound accepted by the derived model must be accepted by the base model (language
    oracle of oracles/cm.py).  Both the XSD 1.0 and the XSD 1.1 restriction code paths.
Wildcard restriction (set inclusion) is decided in C16 (h_restriction).
"""
import itertools
from typing import Optional

import xml.etree.ElementTree as ET

import xmlschema
from xmlschema.validators.particles import OccursCalculator, ParticleMixin

from engine.sym import pick
from oracles import cm
from props import cmshapes as S

ID = "C14"
D5 = [(0, 1), (1, 1), (0, None), (1, None), (2, 2), (0, 0)]        # (0,0) = prohibited particle (indices of the first five are stable)
CFG = {"base": None, "derived": None, "version": "1.0", "base_occ": None, "maxlen": 3}
STATE = {}


# ---------------------------------------------------------------- occurrence kernel (unbounded integers)

def pre_occ(fn, a, b, c, d, n):
    if a < 0 or c < 0 or n < 0:
        return False
    if b is not None and b < a:
        return False
    if d is not None and d < c:
        return False
    return True


def h_occurs(a: int, b: Optional[int], c: int, d: Optional[int], n: int) -> bool:
    """derived range [a,b], base range [c,d] (None = unbounded): accepted => every count n in the derived range is in the base range"""
    p, q = ParticleMixin(a, b), ParticleMixin(c, d)
    if p.has_occurs_restriction(q):
        in_p = n >= a and (b is None or n <= b)
        in_q = n >= c and (d is None or n <= d)
        if in_p and not in_q:
            return False
    return True


def h_calc(a: int, b: Optional[int], c: int, d: Optional[int], n: int) -> bool:
    """OccursCalculator: sum and product of two particle ranges are the interval sum / product"""
    p, q = ParticleMixin(a, b), ParticleMixin(c, d)
    s = OccursCalculator()
    s += p
    s += q
    if s.min_occurs != a + c:
        return False
    if (s.max_occurs is None) != (b is None or d is None):
        return False
    if s.max_occurs is not None and s.max_occurs != b + d:
        return False
    m = OccursCalculator()
    m += p
    m *= q
    if m.min_occurs != a * c:
        return False
    want_max = 0 if (b == 0 or d == 0) else (None if (b is None or d is None) else b * d)
    return m.max_occurs == want_max


# ---------------------------------------------------------------- content-model pairs

def _detuple(x):
    if isinstance(x, list) and x and isinstance(x[0], str) and len(x[0]) == 1 and x[0] in 'ewsca':
        if x[0] in 'sca':
            return (x[0], [_detuple(c) for c in x[1]], x[2], x[3])
        return tuple(x)
    return x


def _pair_schema(base, derived, version):
    cls = xmlschema.XMLSchema10 if version == '1.0' else xmlschema.XMLSchema11
    globs = ''.join('<xs:element name="%s" type="xs:string"/>' % n for n in ('a', 'b', 'c', 'h'))
    globs += '<xs:element name="m" type="xs:string" substitutionGroup="h"/>'
    text = ('<xs:schema xmlns:xs="http://www.w3.org/2001/XMLSchema" targetNamespace="tns" xmlns="tns" elementFormDefault="qualified">%s'
            '<xs:complexType name="B">%s</xs:complexType>'
            '<xs:complexType name="D"><xs:complexContent><xs:restriction base="B">%s</xs:restriction></xs:complexContent></xs:complexType>'
            '</xs:schema>') % (globs, S.to_xsd(base), S.to_xsd(derived))
    sch = cls(text, validation='lax')
    sch.maps.cache.enabled = False
    return sch


def configure(cfg):
    CFG.update(cfg)
    if CFG["base"] is None:
        return
    base = _detuple(CFG["base"])
    if CFG["base_occ"]:
        base = S.with_occurs(base, [tuple(o) for o in CFG["base_occ"]])
    derived = _detuple(CFG["derived"])
    sch = _pair_schema(base, derived, CFG["version"])
    bg, dg = sch.types['B'].content, sch.types['D'].content
    dparts = S.particles_preorder(dg)
    names = sorted({S.q(n[1].split(':')[0]) for n in S.nodes_preorder(base) + S.nodes_preorder(derived) if n[0] == 'e'} | {S.q('m'), S.q('z'), '{ext}x'})
    if any(n[0] == 'w' for n in S.nodes_preorder(derived)):
        names.append('l')          # a name in no namespace: wildcard-to-wildcard restrictions differ on it
    words = [list(w) for ln in range(CFG["maxlen"] + 1) for w in itertools.product(names, repeat=ln)]
    baut = cm.Automaton(S.to_oracle(base), S.SUBST)
    STATE.update(base=base, derived=derived, bg=bg, dg=dg, dparts=dparts, n=len(dparts), words=words,
                 base_words=[w for w in words if baut.accepts(w, CFG["version"])], version=CFG["version"],
                 known=known_vectors(pair_key(base, derived, CFG["version"])))


def pair_key(base, derived, version):
    return "%s|%s|%s" % (version, cm.render(S.to_oracle(base)), S.shape_id(derived))


_KNOWN = None


def known_vectors(key):
    global _KNOWN
    if _KNOWN is None:
        import json
        import os
        root = os.path.dirname(os.path.dirname(os.path.abspath(__file__)))
        _KNOWN = {}
        kf = os.path.join(root, "known_findings.json")
        path = os.path.join(root, "known", "C14.json")
        is_open = any(f["id"] == "C14-xsd11-group-restriction" and f["status"] == "open"
                      for f in json.load(open(kf))["findings"]) if os.path.exists(kf) else False
        if is_open and os.path.exists(path):
            _KNOWN = {k: set(tuple(int(c) for c in x) for x in v) for k, v in json.load(open(path)).items()}
    return _KNOWN.get(key, set())


def pre_pair(fn, **kw):
    for v in kw.values():
        if not (0 <= v < len(D5)):
            return False
    if STATE.get("known"):
        idx = tuple(pick(kw["i%d" % k], len(D5)) for k in range(STATE["n"]))
        if idx in STATE["known"]:          # known-finding region: explicit vectors of this pair
            return False
    return True


def known_replay(config):
    listed = sorted(STATE.get("known", ()))
    rep = 0
    ex = None
    for idx in listed:
        kw = {"i%d" % k: v for k, v in enumerate(idx)}
        if not h_pair(**kw):
            rep += 1
            ex = ex or explain("h_pair", kw)
    return {"finding": "C14-xsd11-group-restriction", "listed": len(listed), "reproduced": rep, "example": ex}


def _lang_included(vec):
    """oracle side (concrete): every word <= maxlen of the derived model with these occurrences is a word of the base"""
    daut = cm.Automaton(S.to_oracle(S.with_occurs(STATE["derived"], vec)), S.SUBST)
    base_ok = STATE["base_words"]
    for w in STATE["words"]:
        if daut.accepts(w, STATE["version"]) and w not in base_ok:
            return False, w
    return True, None


def h_pair(**kw) -> bool:
    idx = [pick(kw["i%d" % k], len(D5)) for k in range(STATE["n"])]
    vec = [D5[i] for i in idx]
    for p, (mn, mx) in zip(STATE["dparts"], vec):
        p.min_occurs, p.max_occurs = mn, mx
    accepted = STATE["dg"].is_restriction(STATE["bg"])
    if not accepted:
        return True              # completeness is not part of the property
    try:
        from crosshair.tracers import NoTracing
    except ImportError:
        ok, _ = _lang_included(vec)
        return ok
    with NoTracing():
        ok, _ = _lang_included(vec)
    return ok


def explain(fn, args):
    if fn == "h_attr_use":
        return "XSD %s base attribute use=%s type/fixed %r, restricted to %r: accepted although an instance valid for the derived type is invalid for the base" % (
            CFG["version"], B_USES[args["bu"]], (A_TYPES[args["ty"]], A_FIXED[args.get("bf", 0)], A_FIXED[args.get("df", 0)]), D_USES[args["du"]])
    if fn == "h_open_content_restriction":
        return "XSD 1.1 base open content %s/%s restricted to %s/%s: accepted although an instance valid for the derived type is invalid for the base" % (
            OC_MODES[args["bm"]], OC_WILD[args["bw"]], OC_MODES[args["dm"]], OC_WILD[args["dw"]])
    if fn == "h_facet_restriction":
        return "XSD %s base facet %s=%d restricted with %s=%d: accepted although not included" % (
            CFG["version"], FACET_PAIRS[args["fp"]][0], F_VALUES[args["bv"]], FACET_PAIRS[args["fp"]][1], F_VALUES[args["dv"]])
    if fn != "h_pair":
        return "args %r" % (args,)
    vec = [D5[args["i%d" % k]] for k in range(STATE["n"])]
    ok, w = _lang_included(vec)
    return "XSD %s base %s derived %s: is_restriction accepted; derived accepts %r which the base rejects" % (
        CFG["version"], cm.render(S.to_oracle(STATE["base"])), cm.render(S.to_oracle(S.with_occurs(STATE["derived"], vec))),
        [x.split('}')[-1] for x in (w or [])])


# ---------------------------------------------------------------- attribute-use and facet restrictions (finite choice)
# These checks run inside schema construction, which is executed concretely (outside the tracer) for the arrangement the
# solver picked: if the library ACCEPTS the derived definition, every probe instance valid for the derived type must be
# valid for the base type (Structures 3.4.6 "Derivation Valid (Restriction, Complex)" clause 2-3, Datatypes 4.3).
B_USES = ["optional", "required"]
D_USES = ["optional", "required", "prohibited", "absent"]
A_TYPES = [("xs:int", "xs:short"), ("xs:int", "xs:int"), ("xs:int", "xs:string"), ("xs:short", "xs:int")]
A_FIXED = [None, "1", "2"]
A_PROBES = [None, "1", "2", "70000", "x"]


def pre_attr(fn, **kw):
    lim = {"bu": len(B_USES), "du": len(D_USES), "ty": len(A_TYPES), "bf": len(A_FIXED), "df": len(A_FIXED)}
    return all(0 <= v < lim[k] for k, v in kw.items())


def _build_or_none(version, text):
    from xmlschema.exceptions import XMLSchemaException
    cls = xmlschema.XMLSchema10 if version == '1.0' else xmlschema.XMLSchema11
    try:
        return cls(text)
    except XMLSchemaException:
        return None          # the derivation is refused: nothing to check (completeness is not part of the property)


def h_attr_use(**kw) -> bool:
    from engine.sym import real_io
    bu = B_USES[pick(kw["bu"], len(B_USES))]
    du = D_USES[pick(kw["du"], len(D_USES))]
    bt, dt = A_TYPES[pick(kw["ty"], len(A_TYPES))]
    bf = A_FIXED[pick(kw["bf"], len(A_FIXED))] if "bf" in kw else None
    df = A_FIXED[pick(kw["df"], len(A_FIXED))] if "df" in kw else None
    with real_io():
        battr = '<xs:attribute name="a" type="%s" use="%s"%s/>' % (bt, bu, '' if bf is None else ' fixed="%s"' % bf)
        dattr = '' if du == "absent" else '<xs:attribute name="a" type="%s" use="%s"%s/>' % (
            dt, du, '' if (df is None or du == "prohibited") else ' fixed="%s"' % df)
        text = ('<xs:schema xmlns:xs="http://www.w3.org/2001/XMLSchema"><xs:complexType name="B">%s</xs:complexType>'
                '<xs:complexType name="D"><xs:complexContent><xs:restriction base="B">%s</xs:restriction></xs:complexContent></xs:complexType>'
                '<xs:element name="b" type="B"/><xs:element name="d" type="D"/></xs:schema>') % (battr, dattr)
        sch = _build_or_none(CFG["version"], text)
        if sch is None:
            return True
        for v in A_PROBES:
            attrs = {} if v is None else {"a": v}
            if sch.is_valid(ET.Element('d', attrs)) and not sch.is_valid(ET.Element('b', attrs)):
                return False
    return True


OC_MODES = ["none", "interleave", "suffix"]
OC_WILD = ["##any", "##other"]
OC_PROBES = [[], ['a'], ['a', '{urn:z}z'], ['{urn:z}z', 'a'], ['a', 'q'], ['q', 'a'], ['{urn:z}z']]


def pre_oc(fn, bm, dm, bw, dw):
    return 0 <= bm < 3 and 0 <= dm < 3 and 0 <= bw < 2 and 0 <= dw < 2


def h_open_content_restriction(bm: int, dm: int, bw: int, dw: int) -> bool:
    """XSD 1.1: a restriction may change the open content of its base only to something that admits less (mode and
    wildcard): if the library accepts the derivation, every probe valid for the derived type is valid for the base"""
    from engine.sym import real_io
    bmode, dmode = OC_MODES[pick(bm, 3)], OC_MODES[pick(dm, 3)]
    bwild, dwild = OC_WILD[pick(bw, 2)], OC_WILD[pick(dw, 2)]
    with real_io():
        def oc(mode, wild):
            if mode == "none":
                return '<xs:openContent mode="none"/>'
            return '<xs:openContent mode="%s"><xs:any namespace="%s" processContents="skip"/></xs:openContent>' % (mode, wild)
        model = '<xs:sequence><xs:element name="a" type="xs:string"/></xs:sequence>'
        text = ('<xs:schema xmlns:xs="http://www.w3.org/2001/XMLSchema" targetNamespace="urn:t" xmlns="urn:t" elementFormDefault="qualified">'
                '<xs:complexType name="B">%s%s</xs:complexType>'
                '<xs:complexType name="D"><xs:complexContent><xs:restriction base="B">%s%s</xs:restriction></xs:complexContent></xs:complexType>'
                '<xs:element name="b" type="B"/><xs:element name="d" type="D"/></xs:schema>') % (oc(bmode, bwild), model, oc(dmode, dwild), model)
        sch = _build_or_none("1.1", text)
        if sch is None:
            return True
        for kids in OC_PROBES:
            eb, ed = ET.Element('{urn:t}b'), ET.Element('{urn:t}d')
            for k in kids:
                name = k if k.startswith('{') else '{urn:t}' + k
                ET.SubElement(eb, name)
                ET.SubElement(ed, name)
            if sch.is_valid(ed) and not sch.is_valid(eb):
                return False
    return True


FACET_PAIRS = [("minInclusive", "minInclusive"), ("maxInclusive", "maxInclusive"), ("minExclusive", "minExclusive"), ("maxExclusive", "maxExclusive"),
               ("minInclusive", "minExclusive"), ("maxInclusive", "maxExclusive"), ("minExclusive", "minInclusive"), ("maxExclusive", "maxInclusive"),
               ("totalDigits", "totalDigits"), ("minLength", "minLength"), ("maxLength", "maxLength"), ("length", "length"),
               ("minLength", "length"), ("maxLength", "length"), ("enumeration", "enumeration")]
F_VALUES = [1, 3, 5]


def pre_facet(fn, fp, bv, dv):
    return 0 <= fp < len(FACET_PAIRS) and 0 <= bv < len(F_VALUES) and 0 <= dv < len(F_VALUES)


def h_facet_restriction(fp: int, bv: int, dv: int) -> bool:
    from engine.sym import real_io
    bk, dk = FACET_PAIRS[pick(fp, len(FACET_PAIRS))]
    b, d = F_VALUES[pick(bv, len(F_VALUES))], F_VALUES[pick(dv, len(F_VALUES))]
    with real_io():
        stringy = bk in ("minLength", "maxLength", "length")
        prim = "xs:string" if stringy else "xs:integer"
        if bk == "enumeration":
            bval, dval = ' '.join('<xs:enumeration value="%d"/>' % x for x in (1, b)), '<xs:enumeration value="%d"/>' % d
            bfac, dfac = bval, dval
        else:
            bfac, dfac = '<xs:%s value="%d"/>' % (bk, b), '<xs:%s value="%d"/>' % (dk, d)
        text = ('<xs:schema xmlns:xs="http://www.w3.org/2001/XMLSchema"><xs:simpleType name="B"><xs:restriction base="%s">%s</xs:restriction></xs:simpleType>'
                '<xs:simpleType name="D"><xs:restriction base="B">%s</xs:restriction></xs:simpleType>'
                '<xs:element name="b" type="B"/><xs:element name="d" type="D"/></xs:schema>') % (prim, bfac, dfac)
        sch = _build_or_none(CFG["version"], text)
        if sch is None:
            return True
        probes = ['', 'a', 'aa', 'aaa', 'aaaa', 'aaaaa', 'aaaaaa'] if stringy else [str(x) for x in range(-1, 8)] + ['10', '100', '1000', '10000', '100000', '1000000']
        for v in probes:
            eb, ed = ET.Element('b'), ET.Element('d')
            eb.text = ed.text = v
            if sch.is_valid(ed) and not sch.is_valid(eb):
                return False
    return True


# ---------------------------------------------------------------- pair catalogue

def pairs():
    """(base shape with occurrences, derived shape) candidates: same shape, dropped particle, chosen branch, wildcard->element,
    element->group, substitution member; the derived occurrences are symbolic"""
    E, W, Sq, C = S.E, S.W, S.S, S.C
    out = []
    # all-groups (round 4): members dropped at the tail / head of an xs:all
    for b, ds in ((S.A(E('a'), E('b'), E('c')), [S.A(E('a'), E('b')), S.A(E('b'), E('c')), S.A(E('a'), E('b'), E('c'))]),
                  (S.A(E('a'), E('b', 0, 1), E('c', 0, 1)), [S.A(E('a'), E('b')), S.A(E('a'))])):
        for d in ds:
            out.append((b, d, "all-group"))
    bases = [
        Sq(E('a', 0, None), E('b', 0, 1)), Sq(E('a'), E('b', 0, None), E('c', 0, 1)), C(E('a'), E('b'), mn=0, mx=None),
        Sq(E('a', 1, 2), Sq(E('b', 0, 1), E('c', 0, None), mn=0, mx=1)), Sq(W('any', 0, None)), Sq(E('a', 0, 1), W('other', 0, None)),
        C(E('a', 0, 2), Sq(E('b'), E('c', 0, 1)), mn=1, mx=2), Sq(E('h', 0, None), E('a', 0, 1)), Sq(E('a', 0, 2), E('b', 0, 2)),
    ]
    # nested base groups replaced by fewer / flattened particles in the derived type
    nested = [
        (Sq(Sq(E('a'), E('c'), mn=1, mx=2), E('b')), [Sq(E('a'), E('b')), Sq(E('c'), E('b')), Sq(Sq(E('a'), E('c')), E('b')), Sq(E('a'), E('c'), E('b'))]),
        (Sq(Sq(E('a'), E('c'), mn=0, mx=None), E('b')), [Sq(E('a'), E('b')), Sq(E('b')), Sq(Sq(E('a'), E('c')), E('b'))]),
        (Sq(C(E('a'), E('c'), mn=1, mx=2), E('b', 0, 1)), [Sq(E('a'), E('b')), Sq(C(E('a'), E('c')), E('b')), Sq(E('a'), E('c'))]),
        (Sq(W('any', 1, 1), Sq(E('a'), E('b'), mn=1, mx=1)), [Sq(Sq(E('a'), E('b'))), Sq(E('c'), Sq(E('a'), E('b'))), Sq(E('c'), E('a'))]),
    ]
    for b, ds in nested:
        for d in ds:
            out.append((b, d, "nested"))
    for b in bases:
        nodes = S.nodes_preorder(b)
        plain = S.with_occurs(b, [(1, 1)] * len(nodes))
        out.append((b, plain, "same-shape"))
        # drop the last child of the outer group
        if len(b[1]) > 1:
            out.append((b, (plain[0], plain[1][:-1], 1, 1), "dropped-last"))
            out.append((b, (plain[0], plain[1][1:], 1, 1), "dropped-first"))
        if b[0] == 'c':
            out.append((b, Sq(plain[1][0]), "chosen-branch"))
            out.append((b, Sq(plain[1][0], plain[1][1]), "choice-as-sequence"))
        if any(n[0] == 'w' for n in nodes):
            out.append((b, Sq(E('a'), E('b')), "wildcard-to-elements"))
            out.append((b, Sq(E('a')), "wildcard-to-element"))
        if any(n[0] == 'e' and n[1] == 'h' for n in nodes):
            out.append((b, Sq(E('m'), E('a')), "substitution-member"))
        if any(n[0] == 'w' for n in nodes):
            for kind in ('any', 'other', 'local', 'tns', 'ext'):
                out.append((b, S.replace_wildcards(plain, kind), "wildcard-to-%s" % kind))
        # a different element in place of the first one (should never be accepted unless emptiable tricks)
        out.append((b, Sq(), "empty-derived"))          # an empty content model: a restriction only of an emptiable base
        out.append((b, Sq(E('c')), "foreign-element"))
        out.append((b, Sq(E('a'), E('a')), "repeated-element"))
    return out


META = {
    "level": "model_checking",
    "symbolic_kind": "integer (unbounded, occurrence kernel); finite-choice occurrence classes (content-model pairs)",
    "functions": [
        "xmlschema.validators.particles.ParticleMixin.has_occurs_restriction",
        "xmlschema.validators.particles.OccursCalculator",
        "xmlschema.validators.groups.XsdGroup.is_restriction",
        "xmlschema.validators.groups.XsdGroup.is_sequence_restriction",
        "xmlschema.validators.groups.XsdGroup.is_choice_restriction",
        "xmlschema.validators.groups.XsdGroup.is_element_restriction",
        "xmlschema.validators.groups.XsdGroup.has_occurs_restriction",
        "xmlschema.validators.elements.XsdElement.is_restriction",
        "xmlschema.validators.wildcards.XsdWildcard.is_restriction",
    ],
    "bounds": {},
    "outside": "facet and attribute-use restrictions (their checks run inside schema construction, which cannot be executed under the "
               "tracer), redefinitions, completeness of the checker (rejecting a valid restriction is not a violation)",
    "stubs": [],
    "assumptions": ["language inclusion is decided on all words up to the length bound over the names of both models plus a substitution "
                    "member, an undeclared and a foreign name"],
}


def obligations(tier, seed):
    quick = tier == "quick"
    out = []
    argsk = [["a", "int"], ["b", "Optional[int]"], ["c", "int"], ["d", "Optional[int]"], ["n", "int"]]
    out.append({"name": "occurs/has_occurs_restriction", "fn": "h_occurs", "pre": "pre_occ", "args": argsk, "config": {}, "timeout": 120, "twin_timeout": 20,
                "bound": "all integer bounds and counts (unbounded; only min<=max assumed)"})
    out.append({"name": "occurs/calculator", "fn": "h_calc", "pre": "pre_occ", "args": argsk, "config": {}, "timeout": 120, "twin_timeout": 20,
                "bound": "all integer bounds (unbounded)"})
    for version in ("1.0", "1.1"):
        out.append({"name": "attr-use/%s" % version, "fn": "h_attr_use", "pre": "pre_attr", "args": [[a, "int"] for a in ("bu", "du", "ty")],
                    "config": {"base": None, "version": version}, "timeout": 300, "twin_timeout": 30,
                    "bound": "base use %r x derived use %r x (base type, derived type) %r; probes %r (finite choice; construction outside the tracer)" % (B_USES, D_USES, A_TYPES, A_PROBES)})
        out.append({"name": "attr-fixed/%s" % version, "fn": "h_attr_use", "pre": "pre_attr", "args": [[a, "int"] for a in ("bu", "du", "ty", "bf", "df")],
                    "config": {"base": None, "version": version}, "timeout": 600, "twin_timeout": 30,
                    "bound": "the same x fixed values %r on base and derived" % (A_FIXED,)})
        out.append({"name": "facet-restriction/%s" % version, "fn": "h_facet_restriction", "pre": "pre_facet", "args": [["fp", "int"], ["bv", "int"], ["dv", "int"]],
                    "config": {"base": None, "version": version}, "timeout": 600, "twin_timeout": 30,
                    "bound": "%d (base facet, derived facet) pairs x values %r x %r; integer / string probes (finite choice; construction outside the tracer)" % (len(FACET_PAIRS), F_VALUES, F_VALUES)})
    out.append({"name": "open-content-restriction/1.1", "fn": "h_open_content_restriction", "pre": "pre_oc",
                "args": [["bm", "int"], ["dm", "int"], ["bw", "int"], ["dw", "int"]], "config": {"base": None, "version": "1.1"}, "timeout": 300, "twin_timeout": 30,
                "bound": "base / derived open content mode from %r x wildcard from %r; probes %r (finite choice; construction outside the tracer)" % (OC_MODES, OC_WILD, OC_PROBES)})
    import random
    rnd = random.Random(seed)
    ps = pairs()
    plan = []
    for version in ("1.0", "1.1"):
        sel = ps
        plan += [(b, d, kind, version) for b, d, kind in sel]
    for b, d, kind, version in plan:
        n = len(S.nodes_preorder(d))
        if n > (4 if quick else 5):
            continue
        out.append({"name": "pair/%s/%s/%s->%s" % (version, kind, cm.render(S.to_oracle(b)).replace(' ', ''), S.shape_id(d).replace(' ', '')),
                    "fn": "h_pair", "pre": "pre_pair", "args": [["i%d" % k, "int"] for k in range(n)],
                    "config": {"base": b, "derived": d, "version": version, "maxlen": 3 if quick else 4}, "timeout": 400 if quick else 3000, "twin_timeout": 30,
                    "bound": "every occurrence-class vector of the %d derived particles; words <= %d" % (n, 3 if quick else 4)})
    return out
