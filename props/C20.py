"""C20 - schema paths match instance paths; partial decoding equals the full result.

Engine A (CrossHair), finite-choice: element index, path spelling variant, document variant and max_depth are chosen by
symbolic indices; the real schema.find(), decode(path=...), iter_errors(path=...) and decode(max_depth=...) are compared
with the governing declarations recorded during a full validation run (extra_validator hook) and with the matching part
of the full decode.
"""
import xml.etree.ElementTree as ET

import xmlschema

from engine.sym import pick

ID = "C20"
U1 = "urn:u1"
CFG = {"doc": 0}

_XSD = """<xs:schema xmlns:xs="http://www.w3.org/2001/XMLSchema" targetNamespace="urn:u1" xmlns="urn:u1" elementFormDefault="qualified">
 <xs:element name="g" type="xs:int"/>
 <xs:element name="v"><xs:simpleType><xs:restriction base="xs:string"><xs:pattern value="[a-z]+"/></xs:restriction></xs:simpleType></xs:element>  <!-- a GLOBAL v, unrelated to the local v's -->
 <xs:element name="h" type="xs:string"/>
 <xs:element name="hm" type="xs:string" substitutionGroup="h"/>
 <xs:element name="r"><xs:complexType><xs:sequence>
   <xs:element name="a"><xs:complexType><xs:sequence><xs:element name="v" type="xs:int"/><xs:element ref="h" minOccurs="0"/></xs:sequence></xs:complexType></xs:element>
   <xs:choice minOccurs="0" maxOccurs="unbounded"><xs:element name="t"><xs:complexType><xs:sequence><xs:element name="v" type="xs:time"/></xs:sequence></xs:complexType></xs:element></xs:choice>
   <xs:element name="b" maxOccurs="unbounded"><xs:complexType><xs:sequence>
       <xs:element name="v" type="xs:boolean"/><xs:element ref="g" minOccurs="0"/>
       <xs:element name="w" minOccurs="0"><xs:complexType><xs:sequence><xs:element name="v" type="xs:date"/></xs:sequence><xs:attribute name="q" type="xs:QName"/></xs:complexType></xs:element>
     </xs:sequence><xs:attribute name="k" type="xs:int"/><xs:attribute name="q" type="xs:QName"/></xs:complexType></xs:element>
 </xs:sequence><xs:attribute name="id" type="xs:int"/></xs:complexType></xs:element></xs:schema>"""
DOCS = [
    # valid
    '<p:r xmlns:p="urn:u1" id="1"><p:a><p:v>1</p:v><p:hm>s</p:hm></p:a><p:t><p:v>10:00:00</p:v></p:t><p:t><p:v>11:00:00</p:v></p:t><p:b k="1"><p:v>true</p:v><p:g>5</p:g></p:b>'
    '<p:b><p:v>0</p:v><p:w><p:v>2000-01-01</p:v></p:w></p:b></p:r>',
    # invalid values in b[2]/v and b[2]/w/v, bad attribute on b[1]
    '<p:r xmlns:p="urn:u1" id="1"><p:a><p:v>1</p:v><p:hm>s</p:hm></p:a><p:t><p:v>10:00:00</p:v></p:t><p:t><p:v>noon</p:v></p:t><p:b k="x"><p:v>true</p:v><p:g>5</p:g></p:b>'
    '<p:b><p:v>maybe</p:v><p:w><p:v>yesterday</p:v></p:w></p:b></p:r>',
    # valid; a namespace declared on a selected element (b[1]) and used by QName values on it and below it; an undeclared prefix in b[2]
    '<p:r xmlns:p="urn:u1" id="1"><p:a><p:v>1</p:v></p:a><p:b k="1" xmlns:z="urn:z" q="z:n"><p:v>true</p:v><p:w q="z:m"><p:v>2000-01-01</p:v></p:w></p:b>'
    '<p:b q="z:n"><p:v>0</p:v></p:b></p:r>',
]
NS = {'p': U1}
SCHEMA = xmlschema.XMLSchema10(_XSD)

# Template B: a no-namespace vocabulary whose schema document uses the XSD namespace as its default namespace (the usual
# <schema xmlns="http://www.w3.org/2001/XMLSchema"> style), instances without any xmlns declaration, and an identity
# constraint on an intermediate, repeated parent.
_XSD_B = """<schema xmlns="http://www.w3.org/2001/XMLSchema">
 <element name="root"><complexType><sequence>
   <element name="group" maxOccurs="unbounded"><complexType><sequence>
      <element name="item" maxOccurs="unbounded"><complexType><simpleContent><extension base="int"><attribute name="k" type="int"/></extension></simpleContent></complexType></element>
     </sequence></complexType>
     <unique name="u"><selector xpath="item"/><field xpath="@k"/></unique></element>
 </sequence></complexType></element></schema>"""
DOCS_B = [
    '<root><group><item k="1">1</item><item k="2">2</item></group><group><item k="1">3</item><item k="3">4</item></group></root>',            # valid
    '<root><group><item k="1">1</item><item k="2">x</item></group><group><item k="1">3</item><item k="1">4</item></group><group><item k="5">5</item><item k="5">6</item></group></root>',
]
SCHEMA_B = xmlschema.XMLSchema10(_XSD_B)


def _schema():
    return SCHEMA_B if CFG.get("tpl") == "B" else SCHEMA


def _docs():
    return DOCS_B if CFG.get("tpl") == "B" else DOCS


def _ns():
    return {} if CFG.get("tpl") == "B" else NS


def configure(cfg):
    CFG["tpl"] = None
    CFG.update(cfg)
    if cfg.get("seqc"):
        _schema_c()


def _steps(root, elem):
    """[(tag, position among same-named siblings, count of same-named siblings)] from root to elem"""
    pm = {c: p for p in root.iter() for c in p}
    chain = []
    n = elem
    while n is not None:
        chain.append(n)
        n = pm.get(n)
    chain.reverse()
    out = [(root.tag, 1, 1)]
    for parent, child in zip(chain, chain[1:]):
        same = [c for c in parent if c.tag == child.tag]
        out.append((child.tag, same.index(child) + 1, len(same)))
    return out


def _spell(steps, variant):
    def name(tag, prefixed=True):
        if '}' not in tag:
            return tag
        local = tag.split('}')[1]
        return ('p:' + local) if prefixed else local
    NS = _ns()
    if CFG.get("tpl") == "B" and variant >= 3:
        variant -= 3          # no namespaces at all: the default-namespace spellings coincide with the plain ones
    if variant == 0:      # absolute, prefixed, no predicates
        return '/' + '/'.join(name(t) for t, p, c in steps), NS
    if variant == 1:      # absolute, prefixed, positional predicates where needed
        return '/' + '/'.join(name(t) + ('[%d]' % p if c > 1 else '') for t, p, c in steps), NS
    if variant == 2:      # relative to the schema (starts with the root element name)
        return '/'.join(name(t) for t, p, c in steps), NS
    if variant == 3:      # default-namespace spelling
        return '/' + '/'.join(name(t, False) for t, p, c in steps), {'': U1}
    return '/' + '/'.join(name(t, False) + '[%d]' % p for t, p, c in steps), {'': U1}      # every step with a predicate


def _governing(res):
    rec = {}

    def hook(elem, xsd_element):
        rec[elem] = xsd_element
    list(_schema().iter_errors(res, extra_validator=hook))
    return rec


def region_partial_substitution_member(**kw):
    """known finding C20-partial-substitution-member: element #3 of the template documents is <p:hm>, a member of the
    substitution group of the referenced head h"""
    return CFG.get("tpl") != "B" and CFG["doc"] in (0, 1) and kw.get("e") == 3


def region_partial_ancestor_xmlns(**kw):
    """known finding C20-partial-ancestor-xmlns: element #5 of document 2 (w) uses a prefix declared on its parent b[1],
    a non-root ancestor of the selected element"""
    if CFG["doc"] != 2 or CFG.get("tpl") == "B":
        return False
    # ... or the wildcard spelling /p:r/p:b/* (chosen for the children of b: elements #4, #5, #8), which selects w as well
    return kw.get("e") == 5 or (kw.get("v", 0) % 3 == 2 and kw.get("e") in (4, 5, 8))


def pre_idx(fn, **kw):
    lim = {"e": 15, "v": 5, "d": 4}
    for k, val in kw.items():
        if not (0 <= val < lim[k]):
            return False
    from engine.known import open_regions
    for pred in open_regions(__name__, fn):
        if globals()[pred](**kw):
            return False
    return True


def h_find(e: int, v: int) -> bool:
    """schema.find(path of the element) is the declaration that governed the element during validation"""
    res = xmlschema.XMLResource(_docs()[CFG["doc"]])
    elems = list(res.root.iter())
    ei = pick(e, 15)
    if ei >= len(elems):
        return True
    elem = elems[ei]
    gov = _governing(res)
    path, ns = _spell(_steps(res.root, elem), pick(v, 5))
    found = _schema().find(path, ns)
    want = gov.get(elem)
    if want is None or found is None:
        return False
    if found is want:
        return True
    # a substitution-group member is governed by its own global declaration, the path on the schema names the head
    return getattr(found, 'ref', None) is not None and (found.ref is want or want.name in getattr(found.ref, 'substitutes', ())) \
        or want.ref is found or found.ref is getattr(want, 'ref', object())


def _part(full, steps, variant):
    """the matching part of the full decode for the path of `steps`"""
    d = full
    cur = [d]
    for tag, pos, cnt in steps[1:]:
        key = ('p:' + tag.split('}')[1]) if '}' in tag else tag
        nxt = []
        for node in cur:
            if not isinstance(node, dict) or key not in node:
                continue
            val = node[key]
            vals = val if isinstance(val, list) else [val]
            if variant in (1, 4):
                if pos <= len(vals):
                    nxt.append(vals[pos - 1])
            else:
                nxt.extend(vals)
        cur = nxt
    return cur


def h_partial(e: int, v: int) -> bool:
    """decode(doc, path=p) / iter_errors(doc, path=p) equal the matching part of the whole-document results"""
    doc = _docs()[CFG["doc"]]
    res = xmlschema.XMLResource(doc)
    elems = list(res.root.iter())
    ei = pick(e, 15)
    if ei == 0 or ei >= len(elems):
        return True
    elem = elems[ei]
    variant = (0, 1)[pick(v, 5) % 2]
    steps = _steps(res.root, elem)
    path, ns = _spell(steps, variant)
    full, full_errors = _schema().decode(doc, validation='lax', namespaces=_ns())
    part, part_errors = _schema().decode(doc, path=path, validation='lax', namespaces=_ns())
    want = _part(full, steps, variant)
    if len(want) == 1:
        if part != want[0]:
            return False
    elif len(want) == 0:
        if part not in (None, []):
            return False
    elif part != want:
        return False
    # errors: the whole-document errors located in the selected subtrees, same order
    selected = [x for x in res.root.iter() if _steps(res.root, x)[:len(steps)] == steps] if variant == 1 else \
        [x for x in res.root.iter() if [t for t, p, c in _steps(res.root, x)[:len(steps)]] == [t for t, p, c in steps]]
    sel_paths = set()
    for x in selected:
        sel_paths.add(_spell(_steps(res.root, x), 1)[0])
    want_err = [(er.reason, er.path) for er in _schema().iter_errors(doc, namespaces=_ns()) if er.path in sel_paths]
    got_err = [(er.reason, er.path) for er in _schema().iter_errors(doc, path=path, namespaces=_ns())]
    return got_err == want_err


def h_partial_errors(e: int, v: int) -> bool:
    """iter_errors(doc, path=p) equals the whole-document errors located in the selected subtrees (same order)"""
    doc = _docs()[CFG["doc"]]
    res = xmlschema.XMLResource(doc)
    elems = list(res.root.iter())
    ei = pick(e, 15)
    if ei == 0 or ei >= len(elems):
        return True
    elem = elems[ei]
    variant = (0, 1, 2)[pick(v, 5) % 3]
    steps = _steps(res.root, elem)
    if variant == 2:
        # the last step is a wildcard: every child of the elements selected by the preceding steps
        path, ns = _spell(steps[:-1], 0)
        path += '/*'
        head = [t for t, p, c in steps[:-1]]
        selected = [x for x in res.root.iter() if [t for t, p, c in _steps(res.root, x)[:len(steps)]][:len(head)] == head and len(_steps(res.root, x)) >= len(steps)]
    else:
        path, ns = _spell(steps, variant)
        selected = [x for x in res.root.iter() if _steps(res.root, x)[:len(steps)] == steps] if variant == 1 else \
            [x for x in res.root.iter() if [t for t, p, c in _steps(res.root, x)[:len(steps)]] == [t for t, p, c in steps]]
    sel_paths = set()
    for x in selected:
        sel_paths.add(_spell(_steps(res.root, x), 1)[0])
    want_err = [(er.reason, er.path) for er in _schema().iter_errors(doc, namespaces=_ns()) if er.path in sel_paths]
    if CFG.get("tpl") == "B" and variant == 1 and elem.tag == 'item':
        # a single item is selected: a uniqueness violation against a sibling outside the selected part cannot be seen
        want_err = [x for x in want_err if not x[0].startswith('duplicated value')]
    got_err = [(er.reason, er.path) for er in _schema().iter_errors(doc, path=path, namespaces=_ns())]
    return got_err == want_err


# ---------------------------------------------------------------- template C: one prefix, two namespaces, one path text
_V1 = ('<xs:schema xmlns:xs="http://www.w3.org/2001/XMLSchema" targetNamespace="urn:v1" elementFormDefault="qualified"><xs:import namespace="urn:v2"/>'
       '<xs:element name="root"><xs:complexType><xs:sequence><xs:element name="item" type="xs:int" maxOccurs="unbounded"/></xs:sequence></xs:complexType></xs:element></xs:schema>')
_V2 = ('<xs:schema xmlns:xs="http://www.w3.org/2001/XMLSchema" targetNamespace="urn:v2" elementFormDefault="qualified">'
       '<xs:element name="root"><xs:complexType><xs:sequence><xs:element name="item" type="xs:boolean" maxOccurs="unbounded"/></xs:sequence></xs:complexType></xs:element></xs:schema>')
DOCS_C = ['<o:root xmlns:o="urn:v1"><o:item>1</o:item><o:item>2</o:item></o:root>', '<o:root xmlns:o="urn:v1"><o:item>1</o:item><o:item>x</o:item></o:root>',
          '<o:root xmlns:o="urn:v2"><o:item>true</o:item><o:item>0</o:item></o:root>', '<o:root xmlns:o="urn:v2"><o:item>true</o:item><o:item>7</o:item></o:root>']
_SC = {}


def _schema_c():
    if "s" not in _SC:
        _SC["s"] = xmlschema.XMLSchema10([_V1, _V2])
    return _SC["s"]


def pre_seq(fn, d0, d1, pv):
    return 0 <= d0 < len(DOCS_C) and 0 <= d1 < len(DOCS_C) and 0 <= pv < 2


def h_path_sequence(d0: int, d1: int, pv: int) -> bool:
    """the same path text with the same prefix is used on two documents that bind the prefix to different namespaces: the
    second call's partial results equal the matching part of its own whole-document results"""
    sch = _schema_c()
    path = ('/o:root/o:item', '/o:root/*')[pick(pv, 2)]
    first = DOCS_C[pick(d0, len(DOCS_C))]
    sch.decode(first, path=path, validation='lax')
    list(sch.iter_errors(first, path=path))
    doc = DOCS_C[pick(d1, len(DOCS_C))]
    full, _ = sch.decode(doc, validation='lax')
    part, _ = sch.decode(doc, path=path, validation='lax')
    if part != full['o:item']:
        return False
    want = [(er.reason, er.path) for er in sch.iter_errors(doc)]
    got = [(er.reason, er.path) for er in sch.iter_errors(doc, path=path)]
    return got == want


def h_depth(d: int) -> bool:
    """limiting the depth changes nothing above the cut"""
    doc = _docs()[CFG["doc"]]
    depth = pick(d, 4)
    full, _ = _schema().decode(doc, validation='lax', namespaces=_ns())
    cut, errs = _schema().decode(doc, validation='lax', namespaces=_ns(), max_depth=depth)
    # reference: keep attributes everywhere above the cut; element children only while their level <= depth
    # (max_depth=0 keeps the root's own attributes only, like max_depth=1)
    want = _cut(full, 1, max(depth, 1))
    if cut != want:
        return False
    full_errors = [(er.reason, er.path) for er in _schema().iter_errors(doc, namespaces=_ns())]
    cut_errors = [(er.reason, er.path) for er in errs]
    want_errors = [x for x in full_errors if x[1].count('/') <= max(depth, 1)]
    return cut_errors == want_errors


def _cut(node, level, depth):
    """level of `node` (root = 1).  Children live at level+1 and are kept (truncated) only if level+1 <= depth."""
    if not isinstance(node, dict):
        return node
    out = {k: v for k, v in node.items() if k.startswith('@')}
    if level + 1 <= depth:
        for k, v in node.items():
            if k.startswith('@'):
                continue
            if isinstance(v, list):
                out[k] = [_cut_child(x, level + 1, depth) for x in v]
            else:
                out[k] = _cut_child(v, level + 1, depth)
    return out


def _cut_child(v, level, depth):
    """a child element at `level` <= depth: complex content is cut recursively (nothing left -> None), a simple value is kept"""
    if isinstance(v, dict):
        r = _cut(v, level, depth)
        return r if r else None
    return v


def explain(fn, args):
    try:
        res = xmlschema.XMLResource(_docs()[CFG["doc"]])
        elems = list(res.root.iter())
        if "e" in args and args["e"] < len(elems):
            path, ns = _spell(_steps(res.root, elems[args["e"]]), args.get("v", 0))
            return "doc %d element #%d path %r ns %r" % (CFG["doc"], args["e"], path, ns)
    except Exception as ex:
        return "explain failed %r" % (ex,)
    return "doc %d args %r" % (CFG["doc"], args)


META = {
    "level": "model_checking",
    "symbolic_kind": "finite-choice (element index, path spelling, max_depth, document variant)",
    "functions": [
        "xmlschema.xpath.mixin.ElementPathMixin.find", "xmlschema.validators.schemas.XMLSchemaBase.get_element",
        "xmlschema.validators.schemas.XMLSchemaBase.iter_errors", "xmlschema.validators.schemas.XMLSchemaBase.iter_decode",
        "xmlschema.resources.xml_resource.XMLResource.iterfind", "xmlschema.resources.xml_loader.XMLResourceLoader.get_absolute_path",
    ],
    "bounds": {},
    "outside": "documents beyond the template (10 elements), path syntax beyond child steps with positional predicates, lazy resources",
    "stubs": [],
    "assumptions": ["the governing declaration is the one passed to the public extra_validator hook during a whole-document validation"],
}


def obligations(tier, seed):
    out = []
    for doc in (0, 1):
        out.append({"name": "find/doc%d" % doc, "fn": "h_find", "pre": "pre_idx", "args": [["e", "int"], ["v", "int"]], "config": {"doc": doc},
                    "timeout": 400, "twin_timeout": 30, "bound": "every element of the template document x 5 path spellings"})
        out.append({"name": "partial/doc%d" % doc, "fn": "h_partial", "pre": "pre_idx", "args": [["e", "int"], ["v", "int"]], "config": {"doc": doc},
                    "timeout": 600, "twin_timeout": 30, "bound": "every non-root element x path with/without positional predicates"})
        out.append({"name": "depth/doc%d" % doc, "fn": "h_depth", "pre": "pre_idx", "args": [["d", "int"]], "config": {"doc": doc},
                    "timeout": 200, "twin_timeout": 30, "bound": "max_depth 0..3"})
    for doc in (0, 1):
        out.append({"name": "find/B%d" % doc, "fn": "h_find", "pre": "pre_idx", "args": [["e", "int"], ["v", "int"]], "config": {"doc": doc, "tpl": "B"},
                    "timeout": 400, "twin_timeout": 30, "bound": "template B (no-namespace vocabulary, schema with the XSD namespace as default): every element x path spellings, empty namespace map"})
        out.append({"name": "partial-errors/B%d" % doc, "fn": "h_partial_errors", "pre": "pre_idx", "args": [["e", "int"], ["v", "int"]], "config": {"doc": doc, "tpl": "B"},
                    "timeout": 600, "twin_timeout": 30, "bound": "template B: a unique constraint on a repeated intermediate parent; paths selecting items under several parents"})
    out.append({"name": "path-sequence", "fn": "h_path_sequence", "pre": "pre_seq", "args": [["d0", "int"], ["d1", "int"], ["pv", "int"]], "config": {"seqc": True},
                "timeout": 400, "twin_timeout": 30, "bound": "two calls with one path text on documents binding the prefix to different namespaces (4 x 4 documents, 2 paths)"})
    out.append({"name": "partial-errors/doc2", "fn": "h_partial_errors", "pre": "pre_idx", "args": [["e", "int"], ["v", "int"]], "config": {"doc": 2},
                "timeout": 600, "twin_timeout": 30, "bound": "the same document: errors of the partial validation vs the whole-document errors in the selected subtrees"})
    return out
