"""C05 - decoded data re-encodes to a valid, equivalent document; strict encode is sound.

Engine A (CrossHair), finite-choice:
  * round trip: a valid instance of the template schema is drawn by symbolic indices (occurrence counts and lexical
    variants of the values); for each lossless converter decode -> encode yields XML that is valid, has the same element
    structure and attribute names, and decodes to the same data again.
  * encoder soundness: the decoded data of a valid instance is damaged by one mutation (kind x position by symbolic
    indices: drop / duplicate / retype / reorder / add an entry); a strict-mode encode either raises an error of the
    library's validation hierarchy or returns XML that the same schema accepts.
"""
import copy
import xml.etree.ElementTree as ET

import xmlschema
from xmlschema import converters
from xmlschema.exceptions import XMLSchemaException

from engine.sym import pick

ID = "C05"
CFG = {"converter": "default"}
NS = {'p': 'urn:u1'}

_XSD = """<xs:schema xmlns:xs="http://www.w3.org/2001/XMLSchema" targetNamespace="urn:u1" xmlns="urn:u1" elementFormDefault="qualified">
 <xs:simpleType name="U"><xs:union memberTypes="xs:integer xs:NCName"/></xs:simpleType>
 <xs:simpleType name="UR1"><xs:restriction base="U"><xs:pattern value="[A-Z]+"/></xs:restriction></xs:simpleType>
 <xs:element name="r"><xs:complexType><xs:sequence>
   <xs:element name="a" type="xs:int"/>
   <xs:element name="b" minOccurs="0" maxOccurs="unbounded"><xs:complexType><xs:simpleContent><xs:extension base="xs:string">
        <xs:attribute name="k" type="xs:boolean"/></xs:extension></xs:simpleContent></xs:complexType></xs:element>
   <xs:element name="c" minOccurs="0"><xs:complexType><xs:sequence>
        <xs:element name="d" type="xs:decimal" minOccurs="0"/><xs:element name="e" type="xs:date" minOccurs="0" maxOccurs="unbounded"/>
      </xs:sequence></xs:complexType></xs:element>
   <xs:element name="l" minOccurs="0"><xs:simpleType><xs:list itemType="xs:int"/></xs:simpleType></xs:element>
   <xs:element name="m" minOccurs="0" maxOccurs="unbounded"><xs:simpleType><xs:list itemType="xs:int"/></xs:simpleType></xs:element>
   <xs:element name="n" minOccurs="0"><xs:complexType><xs:simpleContent><xs:extension base="xs:int">
        <xs:attribute name="u" type="xs:string"/></xs:extension></xs:simpleContent></xs:complexType></xs:element>
   <xs:element name="lr" minOccurs="0"><xs:simpleType><xs:restriction><xs:simpleType><xs:list itemType="xs:int"/></xs:simpleType>
        <xs:length value="2"/></xs:restriction></xs:simpleType></xs:element>
   <xs:element name="u1" type="UR1" minOccurs="0"/><xs:element name="u2" type="U" minOccurs="0"/>
   <xs:element name="ec" minOccurs="0"><xs:complexType><xs:attribute name="a" type="xs:int"/></xs:complexType></xs:element>
   <xs:element name="mx" minOccurs="0"><xs:complexType mixed="true"><xs:sequence><xs:element name="k2" type="xs:string" minOccurs="0"/></xs:sequence></xs:complexType></xs:element>
 </xs:sequence><xs:attribute name="id" type="xs:int" use="required"/>
 <xs:attribute name="fx" type="xs:string" fixed="X"/>
 <xs:attribute name="sz"><xs:simpleType><xs:list itemType="xs:int"/></xs:simpleType></xs:attribute></xs:complexType></xs:element></xs:schema>"""
SCHEMA = xmlschema.XMLSchema10(_XSD)
CONV = {
    "default": converters.XMLSchemaConverter, "badgerfish": converters.BadgerFishConverter, "gdata": converters.GDataConverter,
    "jsonml": converters.JsonMLConverter, "dataelement": xmlschema.DataElementConverter,
}
A_TEXT = ["1", "01", "-5"]
B_VARIANTS = [[], [("s", None)], [("s", "true"), ("t t", "0")], [("", "1")]]
C_VARIANTS = [None, (None, []), ("1.0", []), ("2", ["2000-01-01"]), (None, ["2000-01-01", "1999-12-31"])]
L_VARIANTS = [None, "1 2 3", "7"]
# (occurrences of the repeatable list element m, the simple-content-with-attribute element n as (text, attribute u))
X_VARIANTS = [([], None), (["4 5 6"], ("0", "px")), (["1", "2 3"], ("5", None)), ([], ("0", None))]
# (list-typed attribute sz on the root, the length-restricted list element lr)
# plus a pattern-restricted union value followed by a plain union value, and a mixed-content element (text kept only by the
# converters that declare themselves lossless: JsonML, DataElement)
Y_VARIANTS = [(None, None, None, None), ("1 2", None, ("ABC", "abc"), 'lead<p:k2>v</p:k2>tail'), (None, "3 4", None, 'only text'), ("5", "6 7", ("XY", "12"), None)]


def configure(cfg):
    CFG["fixed"] = {}
    CFG["lims"] = {}
    CFG.update(cfg)


def _a(kw, name):
    return kw[name] if name in kw else CFG.get("fixed", {}).get(name, 0)


def pre_inst(fn, **kw):
    lim = {"a": len(A_TEXT), "b": len(B_VARIANTS), "c": len(C_VARIANTS), "l": len(L_VARIANTS), "x": len(X_VARIANTS), "y": len(Y_VARIANTS), "m": len(MUTATIONS), "pos": 6}
    for k, v in kw.items():
        if not (0 <= v < min(lim[k], CFG.get("lims", {}).get(k, lim[k]))):
            return False
    return True


def _instance(kw):
    a = A_TEXT[pick(_a(kw, "a"), len(A_TEXT))]
    bs = B_VARIANTS[pick(_a(kw, "b"), len(B_VARIANTS))]
    c = C_VARIANTS[pick(_a(kw, "c"), len(C_VARIANTS))]
    lv = L_VARIANTS[pick(_a(kw, "l"), len(L_VARIANTS))]
    sz, lr, uu, mx = Y_VARIANTS[pick(_a(kw, "y"), len(Y_VARIANTS))]
    xml = '<p:r xmlns:p="urn:u1" id="7"%s><p:a>%s</p:a>' % ('' if sz is None else ' sz="%s"' % sz, a)
    for text, k in bs:
        xml += '<p:b%s>%s</p:b>' % ('' if k is None else ' k="%s"' % k, text)
    if c is not None:
        d, es = c
        xml += '<p:c>%s%s</p:c>' % ('' if d is None else '<p:d>%s</p:d>' % d, ''.join('<p:e>%s</p:e>' % e for e in es))
    if lv is not None:
        xml += '<p:l>%s</p:l>' % lv
    ms, nv = X_VARIANTS[pick(_a(kw, "x"), len(X_VARIANTS))]
    for t in ms:
        xml += '<p:m>%s</p:m>' % t
    if nv is not None:
        xml += '<p:n%s>%s</p:n>' % ('' if nv[1] is None else ' u="%s"' % nv[1], nv[0])
    if lr is not None:
        xml += '<p:lr>%s</p:lr>' % lr
    if uu is not None:
        xml += '<p:u1>%s</p:u1><p:u2>%s</p:u2>' % uu
    if mx is not None:
        xml += '<p:mx>%s</p:mx>' % mx
    xml += '</p:r>'
    if CFG.get("dns"):          # the same document spelled with a default namespace declaration
        xml = xml.replace('xmlns:p=', 'xmlns=').replace('<p:', '<').replace('</p:', '</')
    return xml


def _attrs(elem):
    # the fixed attribute fx is reported by the decoder even when absent, so it comes back explicitly: same infoset after
    # schema normalisation
    return sorted(a for a in elem.attrib if a != 'fx')


def _shape(elem, text=False, inside=False):
    # lossless converters: the character data of the mixed-content element mx is part of the round trip (simple-typed
    # values are compared in the value space by the decode comparison: '01' legitimately comes back as '1')
    mixed = elem.tag.endswith('}mx')
    if text and (mixed or inside):
        return (elem.tag, _attrs(elem), (elem.text or '').strip(), (elem.tail or '').strip() if inside else '',
                [_shape(c, True, mixed) for c in elem])
    return (elem.tag, _attrs(elem), [_shape(c, text) for c in elem])


def h_roundtrip(**kw) -> bool:
    xml = _instance(kw)
    conv = CONV[CFG["converter"]]
    if not SCHEMA.is_valid(xml):
        return False                     # the generator only produces valid instances
    data = SCHEMA.decode(xml, converter=conv)
    ns = {'': 'urn:u1'} if CFG.get("dns") else NS
    root_path = 'r' if CFG.get("dns") else 'p:r'
    elem = SCHEMA.encode(data, converter=conv, namespaces=ns, path=root_path if CFG["converter"] in ("default", "gdata") else None)
    if isinstance(elem, tuple):
        elem = elem[0]
    if elem is None:
        return False
    if not SCHEMA.is_valid(elem):
        return False
    keeps_text = CFG["converter"] in ("jsonml", "dataelement")
    if _shape(elem, keeps_text) != _shape(ET.fromstring(xml), keeps_text):
        return False
    # typed values: both documents decode to the same data (default converter as the common yardstick)
    if SCHEMA.decode(elem) != SCHEMA.decode(ET.fromstring(xml)):
        return False
    # and the converter's own data is reproduced
    data2 = SCHEMA.decode(elem, converter=conv, namespaces=ns)
    return _norm(data2) == _norm(data)


def _norm(d):
    """converter data compared up to the namespace-declaration entries (the re-encoded element carries its map separately)"""
    if isinstance(d, dict):
        return {k: _norm(v) for k, v in d.items() if not str(k).startswith('@xmlns') and k != 'xmlns'}
    if isinstance(d, list):
        return [_norm(x) for x in d if not (isinstance(x, dict) and set(x) and all(str(k).startswith('xmlns') for k in x))]
    if hasattr(d, 'tag') and hasattr(d, 'attrib'):         # DataElement
        return (d.tag, _norm(dict(d.attrib)), getattr(d, 'value', None), [_norm(c) for c in d])
    return d


MUTATIONS = ["drop-a", "drop-id", "retype-a-str", "retype-a-none", "dup-a-list", "add-unknown", "add-unknown-attr", "b-to-int", "c-to-str",
             "reorder", "l-bad-item", "id-str", "lr-wrong-count", "lr-too-many", "sz-bad-item",
             "fx-wrong", "ec-text", "tail-text"]


def _mutate(data, m):
    d = copy.deepcopy(data)
    if m == "drop-a":
        d.pop('p:a', None)
    elif m == "drop-id":
        d.pop('@id', None)
    elif m == "retype-a-str":
        d['p:a'] = 'x'
    elif m == "retype-a-none":
        d['p:a'] = None
    elif m == "dup-a-list":
        d['p:a'] = [d.get('p:a'), 3]
    elif m == "add-unknown":
        d['p:zz'] = 1
    elif m == "add-unknown-attr":
        d['@zz'] = '1'
    elif m == "b-to-int":
        d['p:b'] = 5
    elif m == "c-to-str":
        d['p:c'] = 'text'
    elif m == "reorder":
        d = dict(reversed(list(d.items())))
    elif m == "l-bad-item":
        d['p:l'] = [1, 'x']
    elif m == "id-str":
        d['@id'] = 'seven'
    elif m == "lr-wrong-count":
        d['p:lr'] = [1]
    elif m == "lr-too-many":
        d['p:lr'] = [1, 2, 3]
    elif m == "sz-bad-item":
        d['@sz'] = [1, 'x']
    elif m == "fx-wrong":
        d['@fx'] = 'Y'              # a value different from the attribute's fixed value
    elif m == "ec-text":
        d['p:ec'] = {'@a': 1, '$': 'boo'}          # character data for a complex type with an empty content model
    elif m == "tail-text":
        d['p:c'] = {'$': 'stray'}                  # character data in an element-only content
    return d


def h_encode_sound(**kw) -> bool:
    xml = _instance(kw)
    data = SCHEMA.decode(xml)
    mutated = _mutate(data, MUTATIONS[pick(_a(kw, "m"), len(MUTATIONS))])
    try:
        elem = SCHEMA.encode(mutated, validation='strict', namespaces=NS, path='p:r')
    except XMLSchemaException:
        return True              # refused: sound
    if elem is None:
        return True
    return SCHEMA.is_valid(elem)


def explain(fn, args):
    xml = _instance(args)
    out = "converter=%s instance %s" % (CFG["converter"], xml)
    if fn == "h_encode_sound":
        m = MUTATIONS[_a(args, "m")]
        mutated = _mutate(SCHEMA.decode(xml), m)
        out += " mutation %s data %r" % (m, mutated)
        try:
            elem = SCHEMA.encode(mutated, validation='strict', namespaces=NS, path='p:r')
            out += " encoded %s valid=%s errors=%r" % (ET.tostring(elem).decode(), SCHEMA.is_valid(elem), [e.reason for e in SCHEMA.iter_errors(elem)][:2])
        except Exception as e:
            out += " raised %s" % type(e).__name__
    return out[:900]


META = {
    "level": "model_checking",
    "symbolic_kind": "finite-choice instance vectors and mutations",
    "functions": [
        "xmlschema.validators.elements.XsdElement.raw_encode", "xmlschema.validators.groups.XsdGroup.raw_encode",
        "xmlschema.converters.base.XMLSchemaConverter.element_decode", "xmlschema.converters.base.XMLSchemaConverter.element_encode",
        "xmlschema.converters.jsonml.JsonMLConverter.element_encode", "xmlschema.converters.badgerfish.BadgerFishConverter.element_encode",
        "xmlschema.converters.gdata.GDataConverter.element_encode", "xmlschema.dataobjects.DataElementConverter.element_encode",
        "xmlschema.validators.simple_types.XsdAtomicBuiltin.raw_encode", "xmlschema.validators.simple_types.XsdList.raw_encode",
    ],
    "bounds": {},
    "outside": "lossy converters (Parker, Abdera, columnar, unordered) by the property's own wording; mixed content; data deeper than two levels; "
               "free symbolic Python data (does not reach 'Confirmed', DESIGN 9)",
    "stubs": [],
    "assumptions": [],
}


def obligations(tier, seed):
    quick = tier == "quick"
    out = []
    for conv in CONV:
        common = {"timeout": 900 if quick else 3000, "twin_timeout": 40}
        out.append(dict(common, **{"name": "roundtrip/%s/core" % conv, "fn": "h_roundtrip", "pre": "pre_inst",
                    "args": [[a, "int"] for a in ("a", "b", "c", "l")],
                    "config": {"converter": conv, "lims": {"a": 2, "b": 3, "c": 3} if quick else {}},
                    "bound": "instances: a from %r, b from %r, c from %r, l from %r" % (A_TEXT, B_VARIANTS, C_VARIANTS, L_VARIANTS)}))
        for dns in (False, True):
            out.append(dict(common, **{"name": "roundtrip/%s/lists%s" % (conv, "-default-ns" if dns else ""), "fn": "h_roundtrip", "pre": "pre_inst",
                        "args": [[a, "int"] for a in (("x", "y") if quick else ("x", "y", "b"))],
                        "config": {"converter": conv, "dns": dns},
                        "bound": "instances: (m, n) from %r, (sz, lr) from %r%s" % (X_VARIANTS, Y_VARIANTS, ", default-namespace spelling" if dns else "")}))
    from engine.known import open_regions
    skip = set(open_regions(__name__, "h_encode_sound"))
    for m in range(len(MUTATIONS)):
        if "mutation:" + MUTATIONS[m] in skip:
            continue          # the whole obligation is the recorded finding (its stored witness is still replayed)
        out.append({"name": "encode-sound/%s" % MUTATIONS[m], "fn": "h_encode_sound", "pre": "pre_inst",
                    "args": [[a, "int"] for a in (("b", "x", "y") if quick else ("b", "c", "x", "y"))],
                    "config": {"converter": "default", "fixed": {"m": m}, "lims": {"b": 2, "y": 3} if quick else {}}, "timeout": 600 if quick else 3000, "twin_timeout": 40,
                    "bound": "mutation %s applied to the decoded data of every instance of the bound" % MUTATIONS[m]})
    return out
