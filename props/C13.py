"""C13 - defused parsing refuses every entity declaration before any expansion (partial: pyexpat itself is trusted).

Engine A (CrossHair):
  * is_defused(): symbolic base URL string and defuse mode - defusing is selected exactly for always / non-local data
    under 'nonlocal' / remote data under 'remote' (RFC 3986 scheme classifier as reference).
  * DefusableReader over a non-seekable stream, module constant DEFAULT_BUFFER_SIZE scaled to 8 bytes: for symbolic read
    sizes before and after the rewind, the bytes delivered after seek(0) are the original stream, tell() counts them, or
    an OSError-family error is raised (never silent loss or duplication).
  * defuse_xml() control flow with pulldom.parse replaced by a symbolic event script: a forbidden declaration reported
    (as the expat handler does, by raising XMLResourceForbidden) before the first start tag always propagates; otherwise
    the stream is rewound.
  * payload catalogue x source kind (finite choice) through the real parser: XMLResource(..., defuse='always').
"""
import io
from typing import Optional
from xml.dom import pulldom
from xml.sax import SAXParseException

import xmlschema
from xmlschema import XMLResource
from xmlschema.exceptions import XMLResourceForbidden, XMLSchemaException
from xmlschema.resources import sax
from xmlschema.utils import streams

from engine.sym import pick

ID = "C13"
CFG = {"mode": "always", "alpha": "h:/a", "maxlen": 4, "prefix": "", "length": 9, "nevents": 4}
_RES = {}


def configure(cfg):
    CFG.update(cfg)
    for m in ("always", "remote", "nonlocal", "never"):
        if m not in _RES:
            _RES[m] = XMLResource('<a/>', defuse=m)
    if cfg.get("roles"):
        _role_schema()              # built outside the tracer


# ---------------------------------------------------------------- is_defused

def pre_url(fn, u):
    if len(u) > CFG["maxlen"]:
        return False
    for ch in u:
        if ch not in CFG["alpha"]:
            return False
    return True


def h_is_defused(u: str) -> bool:
    from urllib.parse import urlsplit
    res = _RES[CFG["mode"]]
    url = CFG["prefix"] + u
    old = res._base_url
    res._base_url = url
    try:
        got = res.is_defused()
    finally:
        res._base_url = old
    try:
        sch = urlsplit(url.strip()).scheme
        local = sch == '' or sch == 'file' or (len(sch) == 1 and sch.isalpha() and sch.isascii())
        is_url = True
    except ValueError:
        is_url = False
        local = False
    mode = CFG["mode"]
    if mode == "always":
        want = True
    elif mode == "never":
        want = False
    elif mode == "remote":
        want = is_url and not local
    else:   # nonlocal
        want = not (is_url and local)
    return got == want


# ---------------------------------------------------------------- DefusableReader

class _OneWay(io.BufferedIOBase):
    """a readable, NOT seekable buffered stream over fixed bytes"""

    def __init__(self, data):
        self._data = data
        self._p = 0

    def readable(self):
        return True

    def seekable(self):
        return False

    def read(self, size=-1):
        if size is None or size < 0:
            size = len(self._data) - self._p
        out = self._data[self._p:self._p + size]
        self._p += len(out)
        return out

    def seek(self, pos, whence=0):
        raise io.UnsupportedOperation("not seekable")


SIZES = [None, 0, 1, 7, 8, 9, 12, -1]


def pre_reader(fn, s0, s1, s2):
    for s in (s0, s1, s2):
        if not (0 <= s < len(SIZES)):
            return False
    return True


def h_reader(s0: int, s1: int, s2: int) -> bool:
    """read sizes are chosen by symbolic indices from SIZES (slicing a bytearray at a symbolic position makes the engine
    enumerate concrete values anyway)"""
    s0, s1, s2 = (SIZES[pick(x, len(SIZES))] for x in (s0, s1, s2))
    data = bytes((65 + i) % 256 for i in range(CFG["length"]))          # position-dependent content
    old = streams.DEFAULT_BUFFER_SIZE
    streams.DEFAULT_BUFFER_SIZE = 8          # the class compares positions with the buffer size, never depends on its magnitude
    try:
        try:
            r = streams.DefusableReader(_OneWay(data), initial_buffer_size=8)
            r.read(s0)                 # what a defusing pre-scan consumed
            r.seek(0)
            out = r.read(s1)
            if r.tell() != len(out):
                return False
            # a consumer (the parser) keeps reading chunks of size s2 until a read returns b'' (end of file)
            if s2 is None or s2 < 0:
                out = out + r.read(s2)
            elif s2 > 0:
                for _ in range(40):
                    chunk = r.read(s2)
                    if not chunk:
                        break
                    out = out + chunk
            else:
                out = out + r.read(0) + r.read()
            if r.tell() != len(out):
                return False
        except OSError:
            return True                # refusing is allowed, corrupting is not
    finally:
        streams.DEFAULT_BUFFER_SIZE = old
    return bytes(out) == data


# ---------------------------------------------------------------- defuse_xml control flow

EV = [pulldom.COMMENT, pulldom.PROCESSING_INSTRUCTION, pulldom.START_ELEMENT]


def pre_events(fn, **kw):
    n = CFG["nevents"]
    for k in range(n):
        if not (0 <= kw["e%d" % k] < len(EV)):
            return False
    return -1 <= kw["forbid"] <= n and -1 <= kw["syntax"] <= n


def h_defuse_flow(**kw) -> bool:
    n = CFG["nevents"]
    kinds = [EV[pick(kw["e%d" % k], len(EV))] for k in range(n)]
    forbid, syntax = pick(kw["forbid"] + 1, n + 2) - 1, pick(kw["syntax"] + 1, n + 2) - 1

    def fake_parse(fp, parser=None, bufsize=None):
        fp.read(3)                               # a parser consumes input
        for i, k in enumerate(kinds):
            if i == forbid:
                raise XMLResourceForbidden("Entities are forbidden (entity_name='x')")     # what the expat handler does
            if i == syntax:
                raise SAXParseException("syntax error", None, _Loc())
            yield k, None

    fp = io.BytesIO(b'<?xml version="1.0"?><a/>')
    old = sax.pulldom.parse
    sax.pulldom.parse = fake_parse
    try:
        try:
            out = sax.defuse_xml(fp)
            raised = False
        except XMLResourceForbidden:
            raised = True
    finally:
        sax.pulldom.parse = old
    # the script as the real consumer sees it: stops at the first start tag, a syntax error ends the scan silently
    want = False
    for i, k in enumerate(kinds):
        if i == forbid:
            want = True
            break
        if i == syntax or k == pulldom.START_ELEMENT:
            break
    if raised != want:
        return False
    if not raised and out.tell() != 0:
        return False                             # must be rewound for the real parse
    return True


class _Loc:
    def getColumnNumber(self):
        return 0

    def getLineNumber(self):
        return 1

    def getPublicId(self):
        return None

    def getSystemId(self):
        return None


# ---------------------------------------------------------------- payload catalogue through the real parser (finite choice)

PAYLOADS = [
    ('<a>t</a>', False),
    ('<?xml version="1.0"?><!-- c --><a x="1"><b/></a>', False),
    ('<!DOCTYPE a><a/>', False),
    ('<!DOCTYPE a [<!ELEMENT a ANY>]><a/>', False),
    ('<!DOCTYPE a [<!ENTITY e "v">]><a>&e;</a>', True),
    ('<!DOCTYPE a [<!ENTITY e "v">]><a/>', True),
    ('<!DOCTYPE a [<!ENTITY e SYSTEM "file:///etc/passwd">]><a>&e;</a>', True),
    ('<!DOCTYPE a [<!ENTITY % p "x">]><a/>', True),
    ('<!DOCTYPE a [<!NOTATION n SYSTEM "n"><!ENTITY u SYSTEM "u" NDATA n>]><a/>', True),
    ('<!DOCTYPE a SYSTEM "http://example.invalid/x.dtd"><a/>', True),
    ('<!-- c --><?pi x?><!DOCTYPE a [<!ENTITY a1 "1"><!ENTITY a2 "&a1;&a1;">]><a>&a2;</a>', True),
    ('<?xml version="1.0" standalone="yes"?><!DOCTYPE a SYSTEM "http://example.invalid/x.dtd"><a/>', True),
]
STANDALONE = 11


def region_standalone_external_dtd(p=None, **kw):
    """known finding C13-standalone-external-dtd: payload #11 (standalone="yes" with an external DTD subset reference)"""
    return p == STANDALONE


def _in_open_region(fn, **kw):
    from engine.known import open_regions
    return any(globals()[pred](**kw) for pred in open_regions(__name__, fn))

KINDS = ["text", "bytes", "bytesio", "oneway", "bytes-utf16", "bytesio-utf16be-decl", "oneway-raw"]


class _RawOneWay(io.RawIOBase):
    """a non-seekable unbuffered stream (pipe, raw socket file)"""
    def __init__(self, data):
        self._b = io.BytesIO(data)

    def readable(self):
        return True

    def seekable(self):
        return False

    def readinto(self, b):
        d = self._b.read(len(b))
        b[:len(d)] = d
        return len(d)



def pre_payload(fn, p, k):
    return 0 <= p < len(PAYLOADS) and 0 <= k < len(KINDS) and not _in_open_region(fn, p=p, k=k)


def _source(text, kind):
    if kind == "text":
        return text
    if kind == "bytes":
        return text.encode()
    if kind == "bytesio":
        return io.BytesIO(text.encode())
    if kind == "oneway-raw":
        return _RawOneWay(text.encode())
    if kind in ("bytes-utf16", "bytesio-utf16be-decl"):
        import re
        m = re.match(r'<\?xml[^>]*\?>', text)
        body = text[m.end():] if m else text
        standalone = ' standalone="yes"' if (m and 'standalone="yes"' in m.group(0)) else ''
        if kind == "bytes-utf16":          # BOM; an XML declaration only when it carries the standalone flag
            decl = '<?xml version="1.0"%s?>' % standalone if standalone else ''
            return (decl + body).encode('utf-16')
        return io.BytesIO(b'\xfe\xff' + ('<?xml version="1.0" encoding="UTF-16"%s?>' % standalone + body).encode('utf-16-be'))
    return _OneWay(text.encode())


def h_payload(p: int, k: int) -> bool:
    text, forbidden = PAYLOADS[pick(p, len(PAYLOADS))]
    kind = KINDS[pick(k, len(KINDS))]
    try:
        res = XMLResource(_source(text, kind), defuse='always')
        raised = False
    except XMLResourceForbidden:
        raised = True
    except XMLSchemaException:
        return not forbidden and False           # any other library error on these inputs is a mismatch
    if raised != forbidden:
        return False
    if not raised:
        plain = XMLResource(_source(text, kind), defuse='never')
        a = [(e.tag, e.text, sorted(e.attrib.items())) for e in res.root.iter()]
        b = [(e.tag, e.text, sorted(e.attrib.items())) for e in plain.root.iter()]
        if a != b:
            return False
    return True


ROLES = ["resource.parse", "document", "document.parse", "subclass.parse", "schema.iter_errors", "schema.decode"]
_ROLE_SCHEMA = {}


class _SubResource(XMLResource):
    """a user subclass without options of its own"""


def pre_role(fn, p, r):
    return 0 <= p < len(PAYLOADS) and 0 <= r < len(ROLES) and not _in_open_region(fn, p=p, r=r)


def _role_schema():
    if "s" not in _ROLE_SCHEMA:
        import xmlschema
        xsd = ('<xs:schema xmlns:xs="http://www.w3.org/2001/XMLSchema"><xs:element name="a"><xs:complexType mixed="true"><xs:sequence>'
               '<xs:element name="b" minOccurs="0"/></xs:sequence><xs:attribute name="x"/></xs:complexType></xs:element></xs:schema>')
        _ROLE_SCHEMA["s"] = xmlschema.XMLSchema10(xsd, defuse='always')
    return _ROLE_SCHEMA["s"]


def h_role(p: int, r: int) -> bool:
    """the 'always' setting given once governs every later parse made on behalf of the same object"""
    import xmlschema
    text, forbidden = PAYLOADS[pick(p, len(PAYLOADS))]
    role = ROLES[pick(r, len(ROLES))]
    schema = _role_schema()
    root = None
    try:
        if role == "resource.parse":
            res = XMLResource('<a/>', defuse='always')
            res.parse(text)
            root = res.root
        elif role == "subclass.parse":
            res = _SubResource('<a/>', defuse='always')
            res.parse(text)
            root = res.root
        elif role == "document":
            root = xmlschema.XmlDocument(text, schema=schema, validation='skip', defuse='always').root
        elif role == "document.parse":
            doc = xmlschema.XmlDocument('<a/>', schema=schema, validation='skip', defuse='always')
            doc.parse(text)
            root = doc.root
        elif role == "schema.iter_errors":
            list(schema.iter_errors(text))
            root = None
        else:
            schema.decode(text, validation='lax')
            root = None
        raised = False
    except XMLResourceForbidden:
        raised = True
    except XMLSchemaException:
        return False                 # e.g. a parse error from an entity that was looked at instead of refused
    if raised != forbidden:
        return False
    if root is not None:
        plain = XMLResource(text, defuse='never')
        if [(e.tag, e.text) for e in root.iter()] != [(e.tag, e.text) for e in plain.root.iter()]:
            return False
    return True


# ---------------------------------------------------------------- schema documents and schema variants (finite choice)
XS = 'xmlns:xs="http://www.w3.org/2001/XMLSchema"'
PROLOGS = [
    ('', False),
    ('<!DOCTYPE xs:schema>', False),
    ('<!DOCTYPE xs:schema [<!ELEMENT zz ANY>]>', False),
    ('<!DOCTYPE xs:schema [<!ENTITY n "v">]>', True),
    ('<!DOCTYPE xs:schema [<!ENTITY n SYSTEM "file:///etc/hostname">]>', True),
    ('<!DOCTYPE xs:schema [<!ENTITY % p "x">]>', True),
    ('<!DOCTYPE xs:schema [<!NOTATION nn SYSTEM "n"><!ENTITY u SYSTEM "u" NDATA nn>]>', True),
    ('<!DOCTYPE xs:schema SYSTEM "http://example.invalid/x.dtd">', True),
]
SROLES = ["main-text", "main-file", "included", "imported", "include_schema()", "instance"]
SVARIANTS = ["plain", "parent"]
_SDIR = {}


def _sdir():
    if "d" not in _SDIR:
        import atexit
        import os
        import shutil
        import tempfile
        d = os.path.realpath(tempfile.mkdtemp(prefix="c13roles"))
        atexit.register(shutil.rmtree, d, True)
        _SDIR["d"] = d
    return _SDIR["d"]


def pre_srole(fn, p, r, v):
    return 0 <= p < len(PROLOGS) and 0 <= r < len(SROLES) and 0 <= v < len(SVARIANTS)


def h_schema_role(p: int, r: int, v: int) -> bool:
    """a schema set created with defuse='always' (directly or derived from a parent schema) refuses a DTD with entity
    declarations in its main document, in included / imported documents and in the instances it validates; harmless
    prologs change nothing"""
    import os
    import xmlschema
    prolog, forbidden = PROLOGS[pick(p, len(PROLOGS))]
    role = SROLES[pick(r, len(SROLES))]
    variant = SVARIANTS[pick(v, len(SVARIANTS))]
    d = None

    def write(name, text):
        path = os.path.join(d, name)
        with open(path, 'w') as f:
            f.write(text)
        return path
    from engine.sym import real_io
    with real_io():
        d = _sdir()
        kwargs = {"defuse": "always"}
        if variant == "parent":
            kwargs["parent"] = xmlschema.XMLSchema10('<xs:schema %s targetNamespace="urn:base"><xs:simpleType name="code">'
                                                     '<xs:restriction base="xs:string"/></xs:simpleType></xs:schema>' % XS)
        unit = '%s<xs:schema %s%%s><xs:element name="%%s" type="xs:string"/></xs:schema>' % (prolog.replace('%', '%%'), XS)
        safe = '<xs:schema %s><xs:element name="root" type="xs:string"/></xs:schema>' % XS
        try:
            if role == "main-text":
                names = sorted(xmlschema.XMLSchema10(unit % ('', 'root'), **kwargs).elements)
            elif role == "main-file":
                names = sorted(xmlschema.XMLSchema10(write('main.xsd', unit % ('', 'root')), **kwargs).elements)
            elif role == "included":
                write('inc.xsd', unit % ('', 'inc'))
                names = sorted(xmlschema.XMLSchema10(write('m_inc.xsd', '<xs:schema %s><xs:include schemaLocation="inc.xsd"/>'
                                                           '<xs:element name="root" type="xs:string"/></xs:schema>' % XS), **kwargs).elements)
                if forbidden and 'inc' in names:
                    return False
                names = ['root'] if 'root' in names and ('inc' in names) == (not forbidden) else []
            elif role == "imported":
                write('imp.xsd', unit % (' targetNamespace="urn:imp"', 'imp'))
                sch = xmlschema.XMLSchema10(write('m_imp.xsd', '<xs:schema %s><xs:import namespace="urn:imp" schemaLocation="imp.xsd"/>'
                                                  '<xs:element name="root" type="xs:string"/></xs:schema>' % XS), **kwargs)
                loaded = '{urn:imp}imp' in sch.maps.elements
                if forbidden and loaded:
                    return False
                names = ['root'] if 'root' in sch.elements and loaded == (not forbidden) else []
                if forbidden:
                    return names == ['root']          # a refused import is a failed location, not an error (Structures 4.2.6.2)
            elif role == "include_schema()":
                sch = xmlschema.XMLSchema10(write('safe.xsd', safe), **kwargs)
                write('late.xsd', unit % ('', 'late'))
                sch.include_schema('late.xsd', base_url=d)
                names = ['root'] if 'root' in sch.elements else []
            else:
                sch = xmlschema.XMLSchema10(write('safe.xsd', safe), **kwargs)
                inst = prolog.replace('xs:schema', 'root') + '<root>t</root>'
                ok1 = sch.is_valid(inst)
                ok2 = sch.is_valid(write('inst.xml', inst))
                names = ['root'] if ok1 and ok2 and sch.to_dict(inst) == 't' else []
            raised = False
        except XMLResourceForbidden:
            raised = True
        except XMLSchemaException:
            return False
    if raised != forbidden:
        return False
    return raised or names == ['root']


def h_handlers(p: int, k: int) -> bool:
    """the expat handlers installed by SafeExpatParser.reset() are the three forbidding methods, and each one raises"""
    parser = sax.SafeExpatParser()
    parser.reset()
    px = parser._parser
    if px.EntityDeclHandler != parser.forbid_entity_declaration or \
            px.UnparsedEntityDeclHandler != parser.forbid_unparsed_entity_declaration or \
            px.ExternalEntityRefHandler != parser.forbid_external_entity_reference:
        return False
    calls = [lambda: parser.forbid_entity_declaration('n', pick(p, len(PAYLOADS)) % 2, None, None, 's', None, None),
             lambda: parser.forbid_unparsed_entity_declaration('n', None, 's', None, 'nn'),
             lambda: parser.forbid_external_entity_reference(None, None, 's', None)]
    for c in calls:
        try:
            c()
            return False
        except XMLResourceForbidden:
            pass
    return True


def explain(fn, args):
    if fn == "h_schema_role":
        return "prolog %r in role %s of a schema set created with defuse='always' (%s)" % (PROLOGS[args["p"]][0], SROLES[args["r"]], SVARIANTS[args["v"]])
    if fn == "h_role":
        return "payload %r through %s of an object created with defuse='always'" % (PAYLOADS[args["p"]][0], ROLES[args["r"]])
    if fn == "h_payload":
        return "payload %r as %s" % (PAYLOADS[args["p"]][0], KINDS[args["k"]])
    return "%s args %r cfg %r" % (fn, args, {k: CFG[k] for k in ("mode", "prefix", "length", "nevents")})


META = {
    "level": "other",
    "symbolic_kind": "string (base URL); finite-choice read sizes, event scripts and payloads",
    "functions": [
        "xmlschema.resources.xml_resource.XMLResource.is_defused", "xmlschema.utils.streams.DefusableReader.read",
        "xmlschema.utils.streams.DefusableReader.seek", "xmlschema.utils.streams.DefusableReader._read_unlocked",
        "xmlschema.resources.sax.defuse_xml", "xmlschema.resources.sax.SafeExpatParser.reset",
        "xmlschema.resources.sax.SafeExpatParser.forbid_entity_declaration",
    ],
    "bounds": {},
    "outside": "pyexpat itself (the guarantee that EntityDeclHandler runs before any expansion is the documented pyexpat contract), encodings/BOMs "
               "inside expat, external fetch behaviour of the parser, URL sources",
    "stubs": ["xml.dom.pulldom.parse replaced by a symbolic event script in the control-flow obligation",
              "streams.DEFAULT_BUFFER_SIZE scaled from 8 KiB to 8 bytes in the reader obligations"],
    "assumptions": ["pyexpat calls EntityDeclHandler / UnparsedEntityDeclHandler / ExternalEntityRefHandler before expanding or fetching (Python docs)"],
    "explanation": "partial, solver-based: the Python-level decision logic, the re-reader and the control flow of defuse_xml are explored symbolically "
                   "within the stated bounds; the expat C parser is trusted and exercised only on a finite payload catalogue.",
}


def obligations(tier, seed):
    quick = tier == "quick"
    out = []
    for mode in ("always", "remote", "nonlocal", "never"):
        for prefix, alpha in (("", "h:/a"), ("fil", "e:/ "), ("htt", "ps:/"), ("", "c:\\a/")):
            out.append({"name": "is_defused/%s/%s[%s]" % (mode, prefix, alpha.replace('/', '_')), "fn": "h_is_defused", "pre": "pre_url", "args": [["u", "str"]],
                        "config": {"mode": mode, "alpha": alpha, "maxlen": 3 if quick else 5, "prefix": prefix}, "timeout": 200 if quick else 1500, "twin_timeout": 30,
                        "bound": "base URL = %r + <= %d chars over %r" % (prefix, 3 if quick else 5, alpha)})
    for length in ((0, 1, 7, 8, 9, 12) if quick else (0, 1, 7, 8, 9, 12, 16, 17, 20)):
        out.append({"name": "reader/len%d" % length, "fn": "h_reader", "pre": "pre_reader",
                    "args": [["s0", "int"], ["s1", "int"], ["s2", "int"]],
                    "config": {"length": length}, "timeout": 300 if quick else 2000, "twin_timeout": 30,
                    "bound": "stream of %d bytes, buffer 8, read sizes from %r: one before, two after the rewind" % (length, SIZES)})
    n = 3 if quick else 5
    out.append({"name": "defuse-flow/%d-events" % n, "fn": "h_defuse_flow", "pre": "pre_events",
                "args": [["e%d" % k, "int"] for k in range(n)] + [["forbid", "int"], ["syntax", "int"]],
                "config": {"nevents": n}, "timeout": 400 if quick else 3000, "twin_timeout": 30,
                "bound": "scripts of %d pulldom events, forbidden declaration / syntax error at any position or absent" % n})
    out.append({"name": "payloads", "fn": "h_payload", "pre": "pre_payload", "args": [["p", "int"], ["k", "int"]], "config": {},
                "timeout": 300, "twin_timeout": 30, "bound": "%d payloads x %d source kinds (finite choice, real parser)" % (len(PAYLOADS), len(KINDS))})
    out.append({"name": "roles", "fn": "h_role", "pre": "pre_role", "args": [["p", "int"], ["r", "int"]], "config": {"roles": True},
                "timeout": 300, "twin_timeout": 30, "bound": "%d payloads x roles %r of objects created with defuse='always'" % (len(PAYLOADS), ROLES)})
    out.append({"name": "schema-roles", "fn": "h_schema_role", "pre": "pre_srole", "args": [["p", "int"], ["r", "int"], ["v", "int"]], "config": {},
                "timeout": 600, "twin_timeout": 60,
                "bound": "%d DTD prologs x roles %r x schema variants %r (finite choice, real files, construction outside the tracer)" % (len(PROLOGS), SROLES, SVARIANTS)})
    out.append({"name": "handlers", "fn": "h_handlers", "pre": "pre_payload", "args": [["p", "int"], ["k", "int"]], "config": {},
                "timeout": 200, "twin_timeout": 30, "bound": "live parser object: handler bindings and totality of the three forbidding handlers"})
    return out
