"""Content-model shapes shared by C01, C14 and C15: shape grammar, XSD text generation, schema building with the
real parser (at import/configure time, never on a traced path), and the map from shape nodes to live particles.

A shape is the oracle AST of oracles/cm.py with leaf tokens instead of names:
    ('e', 'a'|'b'|'c'|'h', min, max)       element particle, by ref to a global element of namespace 'tns'
                                           ('h' is a substitution-group head whose member is 'm')
    ('e', 'a:int', min, max)               LOCAL element declaration named a with type xs:int (for EDC shapes)
    ('w', 'any'|'other'|'local'|'tns'|'ext', min, max)   element wildcard (processContents=lax)
    ('s'|'c'|'a', [children], min, max)
"""
from oracles import cm

TNS = 'tns'
NAMES = ('a', 'b', 'c', 'h', 'm')
WILD = {
    'any': ('##any', '##any'),
    'other': ('##other', '##other:' + TNS),
    'local': ('##local', ('',)),
    'tns': ('##targetNamespace', (TNS,)),
    'ext': ('ext', ('ext',)),
    # XSD 1.1 notNamespace forms (attribute notNamespace instead of namespace)
    'nottns': ('!##targetNamespace', '##not:' + TNS),
    'notlocal': ('!##local', '##not:'),
    'notboth': ('!##targetNamespace ##local', '##not:' + TNS + '|'),
}


def q(local):
    return '{%s}%s' % (TNS, local)


def occ_attrs(mn, mx):
    s = ''
    if mn != 1:
        s += ' minOccurs="%d"' % mn
    if mx != 1:
        s += ' maxOccurs="%s"' % ('unbounded' if mx is None else mx)
    return s


def to_xsd(node, version='1.0'):
    k = node[0]
    oa = occ_attrs(node[2], node[3])
    if k == 'e':
        tok = node[1]
        if ':' in tok:
            name, ty = tok.split(':')
            if ty.startswith('@'):          # an anonymous inline type: every occurrence is a type definition of its own
                return '<xs:element name="%s"%s><xs:simpleType><xs:restriction base="xs:%s"/></xs:simpleType></xs:element>' % (name, oa, ty[1:].rstrip('0123456789'))
            return '<xs:element name="%s" type="xs:%s"%s/>' % (name, ty, oa)
        return '<xs:element ref="%s"%s/>' % (tok, oa)
    if k == 'w':
        spec = WILD[node[1]][0]
        if spec.startswith('!'):
            return '<xs:any notNamespace="%s" processContents="lax"%s/>' % (spec[1:], oa)
        return '<xs:any namespace="%s" processContents="lax"%s/>' % (spec, oa)
    tag = {'s': 'sequence', 'c': 'choice', 'a': 'all'}[k]
    return '<xs:%s%s>%s</xs:%s>' % (tag, oa, ''.join(to_xsd(c, version) for c in node[1]), tag)


def schema_text(shape, open_content=None):
    """open_content: None | ('interleave'|'suffix', wildcard token[, processContents])  (XSD 1.1).
    The schema blocks substitutions by default and the head element h lifts the block explicitly (block=""): the
    effective value for h is the empty set, so its member m substitutes it as without any default."""
    oc = ''
    if open_content:
        oc = '<xs:openContent mode="%s"><xs:any namespace="%s" processContents="%s"/></xs:openContent>' % (
            open_content[0], WILD[open_content[1]][0], open_content[2] if len(open_content) > 2 else 'lax')
    globs = ''.join('<xs:element name="%s" type="xs:string"%s/>' % (n, ' block=""' if n == 'h' else '') for n in ('a', 'b', 'c', 'h'))
    globs += '<xs:element name="m" type="xs:string" substitutionGroup="h"/>'
    # a transitive member behind an abstract intermediate one: l substitutes h, m2 itself cannot appear
    globs += '<xs:element name="m2" type="xs:string" abstract="true" block="" substitutionGroup="h"/><xs:element name="l" type="xs:string" substitutionGroup="m2"/>'
    head = ('<xs:schema xmlns:xs="http://www.w3.org/2001/XMLSchema" targetNamespace="%s" xmlns="%s" '
            'elementFormDefault="qualified" blockDefault="substitution">%s' % (TNS, TNS, globs))
    if open_content and len(open_content) > 3 and open_content[3] == 'ext':
        # the model and its open content sit in a base type; the element's type extends it without adding anything
        return head + ('<xs:complexType name="BT">%s%s</xs:complexType><xs:element name="r"><xs:complexType><xs:complexContent>'
                       '<xs:extension base="BT"/></xs:complexContent></xs:complexType></xs:element></xs:schema>') % (oc, to_xsd(shape))
    return head + '<xs:element name="r"><xs:complexType>%s%s</xs:complexType></xs:element></xs:schema>' % (oc, to_xsd(shape))


def nodes_preorder(shape):
    out = [shape]
    if shape[0] in 'sca':
        for c in shape[1]:
            out += nodes_preorder(c)
    return out


def particles_preorder(group):
    out = [group]
    for p in group:
        if hasattr(p, 'model') and hasattr(p, '_group'):
            out += particles_preorder(p)
        else:
            out.append(p)
    return out


def with_occurs(shape, occurs):
    """replace the occurrence pairs of the shape's nodes (pre-order) by the given list of (min, max)"""
    it = iter(occurs)

    def go(n):
        mn, mx = next(it)
        if n[0] in 'sca':
            return (n[0], [go(c) for c in n[1]], mn, mx)
        return (n[0], n[1], mn, mx) + tuple(n[4:])
    return go(shape)


def to_oracle(shape):
    """oracle AST: expanded names, wildcard constraints, type labels"""
    k = shape[0]
    if k == 'e':
        tok = shape[1]
        if ':' in tok:
            name, ty = tok.split(':')
            return ('e', q(name), shape[2], shape[3], ty)
        return ('e', q(tok), shape[2], shape[3], 'string')
    if k == 'w':
        return ('w', WILD[shape[1]][1], shape[2], shape[3])
    return (k, [to_oracle(c) for c in shape[1]], shape[2], shape[3])


SUBST = {q('h'): (q('m'), q('l'))}          # m directly; l through the abstract intermediate member m2


def build(shape, version='1.0', validation='lax', open_content=None):
    """-> (schema, root element declaration, content group, particles in pre-order)"""
    import xmlschema
    cls = xmlschema.XMLSchema10 if version == '1.0' else xmlschema.XMLSchema11
    schema = cls(schema_text(shape, open_content), validation=validation)
    schema.maps.cache.enabled = False
    root = schema.elements['r']
    group = schema.types['BT'].content if (open_content and len(open_content) > 3) else root.type.content
    parts = particles_preorder(group)
    assert len(parts) == len(nodes_preorder(shape)), (len(parts), len(nodes_preorder(shape)))
    return schema, root, group, parts


# ---------------------------------------------------------------- shape catalogue

def E(t, mn=1, mx=1):
    return ('e', t, mn, mx)


def W(t, mn=1, mx=1):
    return ('w', t, mn, mx)


def replace_wildcards(shape, kind):
    """the same shape with every wildcard leaf replaced by a wildcard of the given kind"""
    if shape[0] == 'w':
        return ('w', kind, shape[2], shape[3])
    if shape[0] == 'e':
        return shape
    return (shape[0], [replace_wildcards(c, kind) for c in shape[1]], shape[2], shape[3])


def S(*ch, mn=1, mx=1):
    return ('s', list(ch), mn, mx)


def C(*ch, mn=1, mx=1):
    return ('c', list(ch), mn, mx)


def A(*ch, mn=1, mx=1):
    return ('a', list(ch), mn, mx)


def catalogue(max_leaves=4, leaf_tokens=('a', 'b', 'c'), with_wild=True, with_subst=True):
    """systematic shapes: an outer sequence/choice over leaves and inner sequence/choice groups of leaves (depth 2),
    names may repeat; default occurrences (1,1) everywhere - occurrence vectors are supplied separately"""
    shapes = []
    leaves = [E(t) for t in leaf_tokens]
    extra = []
    if with_wild:
        extra += [W('any'), W('other'), W('tns'), W('local')]
    if with_subst:
        extra += [E('h'), E('m')]

    def inner_groups():
        out = []
        for kind in (S, C):
            for x in leaves[:2]:
                out.append(kind(x))
                for y in leaves[:3]:
                    out.append(kind(x, y))
        return out

    inner = inner_groups()
    items = leaves + extra
    for kind in (S, C):
        # two or three leaves
        for x in items:
            for y in items:
                shapes.append(kind(x, y))
        for x in leaves:
            for y in leaves:
                for z in leaves[:2]:
                    shapes.append(kind(x, y, z))
        # leaf + inner group, inner group + leaf, two inner groups
        for g in inner:
            for x in items[:5]:
                shapes.append(kind(x, g))
                shapes.append(kind(g, x))
                for y in leaves[:2]:
                    shapes.append(kind(x, g, y))
        for g1 in inner[:8]:
            for g2 in inner[:8]:
                shapes.append(kind(g1, g2))
    # dedupe by rendering, cap leaves
    seen, out = set(), []
    for s in shapes:
        r = cm.render(to_oracle(s))
        n_leaves = sum(1 for n in nodes_preorder(s) if n[0] in 'ew')
        if r in seen or n_leaves > max_leaves:
            continue
        seen.add(r)
        out.append(s)
    return out


def catalogue_11():
    """XSD 1.1 only: notNamespace wildcards against the other leaf kinds"""
    nots = [W('nottns'), W('notlocal'), W('notboth')]
    others = [W('local'), W('tns'), W('any'), W('other'), E('a'), W('ext')]
    out = []
    for kind in (S, C):
        for x in nots:
            for y in others + nots:
                out.append(kind(x, y))
                out.append(kind(y, x))
    seen, res = set(), []
    for s in out:
        r = shape_id(s)
        if r not in seen:
            seen.add(r)
            res.append(s)
    return res


def catalogue_edc():
    """same-named LOCAL element declarations with equal / different named types and with anonymous inline types
    (Element Declarations Consistent); a differently named element in between keeps the models deterministic"""
    return [
        S(E('x:int'), E('b'), E('x:int')),            # consistent
        S(E('x:int'), E('b'), E('x:string')),         # different named types
        S(E('x:@int1'), E('b'), E('x:@string2')),     # different anonymous types
        S(E('x:@int1'), E('b'), E('x:@int2')),        # two anonymous definitions over the same base: not the same type
        S(E('x:@int1'), E('b'), E('x:int')),          # anonymous vs named
        S(E('x:int'), C(E('b'), E('x:string'))),      # the second declaration sits in a nested choice
        S(E('a'), E('b'), E('a')),                    # references to one global declaration: consistent
    ]


def catalogue_deep():
    """nesting depth 3: a competing particle sits under two nested groups below the common ancestor.
    Returned with the mask of particles whose occurrences are made symbolic (the three groups and the last leaf)."""
    out = []
    for outer in (S, C):
        for mid in (S, C):
            for inner_items in ((E('a'), E('b')), (E('a'),), (E('b'), E('a'))):
                for last in (E('a'), E('b'), W('tns')):
                    if outer is C and mid is C:
                        continue
                    shape = S(outer(mid(*inner_items)), last) if outer is S else S(outer(mid(*inner_items), E('c')), last)
                    out.append(shape)
    return out


def shape_id(shape):
    return cm.render(to_oracle(with_occurs(shape, [(1, 1)] * len(nodes_preorder(shape)))))
