"""C06 - lazy (streaming) processing gives the same results as full loading.

Engine A (CrossHair), finite-choice documents: the shape of a small document (number of items, key / keyref attribute
values, children with valid/invalid text, an inner namespace declaration) is chosen by symbolic indices; the same text is
loaded as a lazy resource (depth 1 claimed; depth 2 explored in the thorough tier and only reported) and as a fully
loaded one, and the real iter_errors(), decode() and XMLResource.iter() results are compared.
The lazy decode is a streaming design: the data carries a shared generator in place of the pruned children; the harness
materialises it (consumes the generator in order) before comparing.
"""
import types

import xmlschema
from xmlschema import XMLResource
from xmlschema.validators.exceptions import XMLSchemaValidationError

from engine.sym import pick

ID = "C06"
CFG = {"n": 2, "lazy": 1, "thin": True}

_XSD = """<xs:schema xmlns:xs="http://www.w3.org/2001/XMLSchema">
 <xs:element name="i" type="xs:string"/>  <!-- a GLOBAL element with the name of the local, differently typed item -->
 <xs:element name="r"><xs:complexType><xs:sequence>
   <xs:element name="i" minOccurs="0" maxOccurs="unbounded"><xs:complexType><xs:sequence>
       <xs:element name="c" type="xs:int" minOccurs="0" maxOccurs="2"/></xs:sequence>
     <xs:attribute name="k" type="xs:int"/><xs:attribute name="ref" type="xs:int"/><xs:attribute name="q" type="xs:QName"/></xs:complexType></xs:element>
   <xs:any namespace="##other" processContents="lax" minOccurs="0" maxOccurs="unbounded"/>
 </xs:sequence></xs:complexType>
 <xs:key name="K"><xs:selector xpath="i"/><xs:field xpath="@k"/></xs:key>
 <xs:keyref name="R" refer="K"><xs:selector xpath="i"/><xs:field xpath="@ref"/></xs:keyref>
 </xs:element></xs:schema>"""
SCHEMA = xmlschema.XMLSchema10(_XSD)

KS = [None, "1", "2"]
REFS = [None, "1", "3"]
CH = [[], ["1"], ["1", "x"], ["x", "2"]]
NSD = [False, True]
XSI = 'xmlns:xsi="http://www.w3.org/2001/XMLSchema-instance" xmlns:xs="http://www.w3.org/2001/XMLSchema"'
# an undeclared child in another namespace, admitted by the lax wildcard that closes the root's model
WILDKIDS = ['', '<x xmlns="urn:o">free</x>', '<x xmlns="urn:o" %s xsi:type="xs:int">1</x>' % XSI, '<x xmlns="urn:o" %s xsi:type="xs:int">bad</x>' % XSI]
TAILS = ['', 'stray text', ' \n ']          # character data after the first item (not allowed in element-only content unless blank)
PADS = [0, 17000, 70000]          # characters of comment between the first and the second item (pushes the rest past the parser's read-ahead block)


def configure(cfg):
    CFG["fixed"] = {}
    CFG["lims"] = {}
    CFG.update(cfg)


def _with_fixed(kw):
    fx = CFG.get("fixed") or {}
    if not fx:
        return kw
    d = dict(fx)
    d.update(kw)
    return d


def _items(kw):
    kw = _with_fixed(kw)
    out = []
    for j in range(CFG["n"]):
        k = KS[pick(kw["k%d" % j], len(KS))] if ("k%d" % j) in kw else str(j + 1)
        r = REFS[pick(kw["r%d" % j], len(REFS))] if ("r%d" % j) in kw else None
        ch = CH[pick(kw["c%d" % j], len(CH))]
        out.append((k, r, ch))
    return out


def region_iter_sibling_order(**kw):
    """known finding C06-lazy-iter-order: some streamed subtree has two or more children"""
    return any(len(ch) >= 2 for k, r, ch in _items(kw))


def region_lazy_missing_key_path(**kw):
    """known finding C06-lazy-error-path: an item with children whose own key is missing or duplicates an earlier key
    (the identity error raised for the item is located at the item's last child)"""
    seen = []
    for k, r, ch in _items(kw):
        if ch and (k is None or k in seen):
            return True
        if k is not None:
            seen.append(k)
    return False


def region_lazy_decode_identities(**kw):
    """known finding C06-lazy-decode-identities: the document violates an identity constraint (duplicate key, missing key
    field, dangling key reference)"""
    items = _items(kw)
    keys = [k for k, r, ch in items if k is not None]
    if len(keys) != len(items) or len(set(keys)) != len(keys):
        return True
    return any(r is not None and r not in keys for k, r, ch in items)


def region_lazy_decode_chunk_xmlns(**kw):
    """known finding C06-lazy-decode-chunk-xmlns: a streamed item declares a namespace itself (the chunk is decoded at
    level 0, where declarations of non-global elements are dropped from the data)"""
    kw = _with_fixed(kw)
    return any(kw.get("q%d" % j) == 1 for j in range(CFG["n"]))


def region_lazy_root_errors_last(**kw):
    """known finding C06-lazy-root-errors-last: the root element itself is invalid (undeclared attribute) and some error is
    reported below it: the lazy run validates the root last, so its own errors come after those of the streamed children"""
    kw = _with_fixed(kw)
    if not (kw.get("b") or kw.get("t") == 1):
        return False
    child_error = any('x' in ch or k is None for k, r, ch in _items(kw))
    return child_error or kw.get("w") == 3


def region_lazy_path_default_ns_spelling(**kw):
    """known finding C06-lazy-path-default-ns-spelling: an error is located at a streamed child that declares a default
    namespace itself (the wildcard-matched child with invalid typed content)"""
    return _with_fixed(kw).get("w") == 3


def region_lazy_path_position_readahead(**kw):
    """known finding C06-lazy-path-position-readahead: an error is located at the first item while the second item lies
    beyond the parser's read-ahead (the positional predicate [1] is omitted because the sibling is not in the tree yet)"""
    kw = _with_fixed(kw)
    return kw.get("pad", 0) >= 1 and kw.get("k0") == 0


def pre_doc(fn, **kw):
    for k, v in kw.items():
        lim = {"k": len(KS), "r": len(REFS), "c": len(CH), "x": 3, "z": 2, "q": 3, "p": len(PADS), "w": len(WILDKIDS), "t": len(TAILS), "b": 2, "f": 2}[k[0]]
        lim = min(lim, CFG.get("lims", {}).get(k, lim))
        if not (0 <= v < lim):
            return False
    from engine.known import open_regions
    for pred in open_regions(__name__, fn):
        if globals()[pred](**kw):
            return False
    return True


def _doc(kw):
    kw = _with_fixed(kw)
    items = []
    for j in range(CFG["n"]):
        k = KS[pick(kw["k%d" % j], len(KS))] if ("k%d" % j) in kw else str(j + 1)
        r = REFS[pick(kw["r%d" % j], len(REFS))] if ("r%d" % j) in kw else None
        ch = CH[pick(kw["c%d" % j], len(CH))]
        ns = pick(kw["x%d" % j], 3) if ("x%d" % j) in kw else 0          # 0 none, 1 item declares, 2 item and its last child declare
        attrs = ''
        if k is not None:
            attrs += ' k="%s"' % k
        if r is not None:
            attrs += ' ref="%s"' % r
        if ns:
            attrs += ' xmlns:q="urn:q%d" xmlns:q2="urn:qq%d"' % (j, j)
        qn = pick(kw["q%d" % j], 3) if ("q%d" % j) in kw else 0          # 0 no QName attribute, 1 declared on the item itself, 2 undeclared prefix
        if qn == 1:
            attrs += ' xmlns:u="urn:u" q="u:v"'
        elif qn == 2:
            attrs += ' q="u:v"'
        kids = ['<c>%s</c>' % t for t in ch]
        if ns == 2 and kids:
            kids[-1] = kids[-1].replace('<c>', '<c xmlns:w="urn:w%d">' % j, 1)
        items.append('<i%s>%s</i>' % (attrs, ''.join(kids)))
        if j == 0 and "t" in kw:
            items.append(TAILS[pick(kw["t"], len(TAILS))])
        if j == 0 and "pad" in kw:
            items.append('<!--%s-->' % ('.' * PADS[pick(kw["pad"], len(PADS))]))
    if "w" in kw:
        wk = WILDKIDS[pick(kw["w"], len(WILDKIDS))]
        if kw.get("f"):
            items.insert(1, wk)          # the stray child comes right after the first item, followed by the other items
        else:
            items.append(wk)
    return '<r xmlns:p="urn:p"%s>%s</r>' % (' bad="1"' if kw.get("b") else '', ''.join(items))


def _materialise(data, errors):
    """replace the shared child generator of a lazy decode by the items it yields, in order"""
    gens = []

    def find(d):
        if isinstance(d, types.GeneratorType):
            if d not in gens:
                gens.append(d)
        elif isinstance(d, dict):
            for v in d.values():
                find(v)
        elif isinstance(d, list):
            for v in d:
                find(v)
    find(data)
    if not gens:
        return data, list(errors)
    if len(gens) > 1:
        return None, None
    stream = list(gens[0])
    errs = list(errors) + [x for x in stream if isinstance(x, XMLSchemaValidationError)]
    vals = iter([x for x in stream if not isinstance(x, XMLSchemaValidationError)])

    def fill(d):
        if isinstance(d, types.GeneratorType):
            return next(vals, None)
        if isinstance(d, dict):
            return {k: fill(v) for k, v in d.items()}
        if isinstance(d, list):
            return [fill(v) for v in d]
        return d
    return fill(data), errs


def h_lazy(**kw) -> bool:
    """iter_errors(): same errors (reason and path) in the same order"""
    doc = _doc(kw) if CFG["n"] else '<r/>'          # n = 0: the childless root (nothing is streamed)
    lazy = CFG["lazy"]
    eager_errors = [(e.reason, e.path) for e in SCHEMA.iter_errors(XMLResource(doc))]
    lazy_errors = [(e.reason, e.path) for e in SCHEMA.iter_errors(XMLResource(doc, lazy=lazy, thin_lazy=CFG["thin"]))]
    return lazy_errors == eager_errors


def h_lazy_reasons(**kw) -> bool:
    """iter_errors(): the same verdict and the same multiset of error reasons (no claim on order and paths: holds on the
    whole domain, including the regions of the order/path findings)"""
    doc = _doc(kw) if CFG["n"] else '<r/>'
    eager = sorted(e.reason or '' for e in SCHEMA.iter_errors(XMLResource(doc)))
    lazy = sorted(e.reason or '' for e in SCHEMA.iter_errors(XMLResource(doc, lazy=CFG["lazy"], thin_lazy=CFG["thin"])))
    return lazy == eager


def h_lazy_decode(**kw) -> bool:
    """decode(): same data (after consuming the streamed children) and the same errors"""
    doc = _doc(kw)
    lazy = CFG["lazy"]
    edata, eerrs = SCHEMA.decode(XMLResource(doc), validation='lax')
    ldata, lerrs = SCHEMA.decode(XMLResource(doc, lazy=lazy, thin_lazy=CFG["thin"]), validation='lax')
    ldata, lerrs = _materialise(ldata, lerrs)
    if ldata != edata:
        return False
    if sorted(e.reason for e in lerrs) != sorted(e.reason for e in eerrs):
        return False
    return True


def h_lazy_decode_items(**kw) -> bool:
    """decode(): the data of the declared items (and their errors) are the same, whatever happens to an undeclared
    sibling admitted by the wildcard (whose own lazy decoding is the finding C06-lazy-decode-wildcard-child)"""
    doc = _doc(kw)
    edata, eerrs = SCHEMA.decode(XMLResource(doc), validation='lax')
    ldata, lerrs = SCHEMA.decode(XMLResource(doc, lazy=CFG["lazy"], thin_lazy=CFG["thin"]), validation='lax')
    ldata, lerrs = _materialise(ldata, lerrs)
    if not isinstance(ldata, dict) or not isinstance(edata, dict):
        return False
    if ldata.get('i') != edata.get('i'):
        return False
    skip = "is not an element of the schema"
    return sorted(e.reason for e in lerrs if skip not in e.reason) == sorted(e.reason for e in eerrs if skip not in e.reason)


def region_lazy_after_stray_global_declaration(**kw):
    """known finding C06-lazy-after-stray-global-declaration: a wildcard-matched child with xsi:type stands before a
    declared item"""
    kw = _with_fixed(kw)
    return kw.get("w") in (2, 3) and kw.get("f") == 1


def h_iter(**kw) -> bool:
    """XMLResource.iter() of a lazy resource: same elements, text and in-scope namespaces, in document order"""
    doc = _doc(kw)
    eager = XMLResource(doc)
    want = [(e.tag, e.text, sorted(eager.get_nsmap(e).items())) for e in eager.iter()]
    res = XMLResource(doc, lazy=CFG["lazy"], thin_lazy=CFG["thin"])
    got = []
    for e in res.iter():
        got.append((e.tag, e.text, sorted(res.get_nsmap(e).items())))
    # elements above the lazy depth are yielded while still incomplete (their text is not yet known): compare tag and
    # namespaces for those, everything for the complete ones
    if len(got) != len(want):
        return False
    for (gt, gx, gn), (wt, wx, wn) in zip(got, want):
        if gt != wt or gn != wn:
            return False
        if gx is not None and gx != wx:
            return False
    return True


def explain(fn, args):
    doc = _doc(args)
    out = "lazy=%s doc %s" % (CFG["lazy"], doc)
    try:
        if fn == "h_iter":
            res = XMLResource(doc, lazy=CFG["lazy"], thin_lazy=CFG["thin"])
            out += " lazy iter: %r eager iter: %r" % ([(e.tag, e.text) for e in res.iter()], [(e.tag, e.text) for e in XMLResource(doc).iter()])
        else:
            out += " eager errors %r lazy errors %r" % ([(e.reason[:40], e.path) for e in SCHEMA.iter_errors(XMLResource(doc))],
                                                      [(e.reason[:40], e.path) for e in SCHEMA.iter_errors(XMLResource(doc, lazy=CFG["lazy"]))])
    except Exception as e:
        out += " raised %r" % (e,)
    return out[:900]


META = {
    "level": "model_checking",
    "symbolic_kind": "finite-choice document shapes",
    "functions": [
        "xmlschema.resources.xml_loader.XMLResourceLoader._lazy_iterparse", "xmlschema.resources.xml_loader.XMLResourceLoader._clear",
        "xmlschema.resources.xml_resource.XMLResource.iter", "xmlschema.resources.xml_resource.XMLResource.iter_depth",
        "xmlschema.validators.schemas.XMLSchemaBase.iter_errors", "xmlschema.validators.schemas.XMLSchemaBase.raw_decoder",
        "xmlschema.validators.schemas.XMLSchemaBase.iter_decode",
    ],
    "bounds": {},
    "outside": "documents larger than the bound, lazy depth >= 2 (explored in the thorough tier and only reported), expat chunking of long inputs",
    "stubs": [],
    "assumptions": ["a lazy decode is compared after consuming its shared child generator in order (the documented streaming use)"],
}


def obligations(tier, seed):
    quick = tier == "quick"
    out = []
    for n in ((0, 1, 2) if quick else (0, 1, 2, 3)):
        args = [] if n else [["z", "int"]]          # n = 0: a dummy argument (the engine needs at least one)
        for j in range(n):
            args += [["k%d" % j, "int"], ["r%d" % j, "int"], ["c%d" % j, "int"]]
        for thin in ((True,) if quick else (True, False)):
            for fn, label in (("h_lazy", "errors"), ("h_lazy_decode", "decode")):
              for k0 in (range(len(KS)) if n >= 2 else (None,)):
                if k0 == 0 and fn == "h_lazy_decode":
                    continue        # the first item lacks its key: entirely inside the recorded finding's region
                if n == 3 and fn == "h_lazy_decode":
                    continue        # three items cannot have three distinct keys from the pool: every document is in that region
                out.append({"name": "%s/lazy1/n%d/%s%s" % (label, n, "thin" if thin else "full", "" if k0 is None else "/k0=%d" % k0), "fn": fn, "pre": "pre_doc",
                            "args": [a for a in args if k0 is None or a[0] != "k0"],
                            "config": {"n": n, "lazy": 1, "thin": thin, "lims": {"r1": 2, "c1": 3, "c0": 3} if (quick and n == 2) else ({"r0": 2, "r1": 2, "r2": 2, "c0": 2, "c1": 3, "c2": 2} if n == 3 else {}),
                                       "fixed": {} if k0 is None else {"k0": k0}},
                            "timeout": 900 if quick else 3000, "twin_timeout": 40,
                            "bound": "%d items: key from %r, keyref from %r, children %r" % (n, KS, REFS, CH)})
        if n:
            qargs = []
            for j in range(n):
                qargs += [["q%d" % j, "int"], ["c%d" % j, "int"]]
            for fn, label in (("h_lazy", "errors"), ("h_lazy_decode", "decode")):
                out.append({"name": "%s-qname/lazy1/n%d" % (label, n), "fn": fn, "pre": "pre_doc", "args": qargs,
                            "config": {"n": n, "lazy": 1, "thin": True, "lims": {"c0": 2, "c1": 2}}, "timeout": 600 if quick else 2000, "twin_timeout": 40,
                            "bound": "%d items, each with a QName attribute whose prefix is declared on the item itself / not declared / absent" % n})
        if n == 1:
            out.append({"name": "errors-extra/lazy1/n1", "fn": "h_lazy", "pre": "pre_doc",
                        "args": [["w", "int"], ["t", "int"], ["b", "int"], ["c0", "int"]],
                        "config": {"n": 1, "lazy": 1, "thin": True, "lims": {"c0": 3}}, "timeout": 600 if quick else 2000, "twin_timeout": 40,
                        "bound": "1 item + an undeclared wildcard-matched child from %d variants (with/without xsi:type) x character data after the item %r x an invalid root attribute" % (len(WILDKIDS), TAILS)})
            out.append({"name": "reasons-extra/lazy1/n1", "fn": "h_lazy_reasons", "pre": "pre_doc",
                        "args": [["w", "int"], ["t", "int"], ["b", "int"], ["c0", "int"]],
                        "config": {"n": 1, "lazy": 1, "thin": True, "lims": {"c0": 3}}, "timeout": 600 if quick else 2000, "twin_timeout": 40,
                        "bound": "the same documents: verdict and multiset of reasons (whole domain, no exclusions)"})
        if n == 2:
            for fn, label in (("h_lazy_decode_items", "decode-items"), ("h_lazy_reasons", "reasons")):
                out.append({"name": "%s-stray/lazy1/n2" % label, "fn": fn, "pre": "pre_doc",
                            "args": [["w", "int"], ["f", "int"], ["c1", "int"]],
                            "config": {"n": 2, "lazy": 1, "thin": True, "fixed": {"c0": 0}, "lims": {"c1": 3}}, "timeout": 600 if quick else 2000, "twin_timeout": 40,
                            "bound": "2 items and an undeclared child (4 variants) after the first or after the last item"})
        for thin_c in ((True, False) if n == 2 else ()):
            out.append({"name": "errors-chunked/lazy1/n2/%s" % ("thin" if thin_c else "full"), "fn": "h_lazy", "pre": "pre_doc",
                        "args": [["pad", "int"], ["k0", "int"], ["k1", "int"], ["r1", "int"]],
                        "config": {"n": 2, "lazy": 1, "thin": thin_c, "fixed": {"c0": 0, "c1": 0}}, "timeout": 600 if quick else 2000, "twin_timeout": 40,
                        "bound": "2 items separated by a comment of %r characters (the second item lies beyond the parser's first read block), keys %r, keyref %r" % (PADS, KS, REFS)})
        args2 = [] if n else [["z", "int"]]
        for j in range(n):
            args2 += [["c%d" % j, "int"], ["x%d" % j, "int"]]
        out.append({"name": "iter/lazy1/n%d" % n, "fn": "h_iter", "pre": "pre_doc", "args": args2 + [["k0", "int"], ["r0", "int"]][:0],
                    "config": {"n": n, "lazy": 1, "thin": True}, "timeout": 400, "twin_timeout": 40,
                    "bound": "%d items, children %r, optional inner xmlns declaration" % (n, CH)})
    return out
