"""C12 - resource access control confines every fetch to the allowed class of locations.

Engine A (CrossHair): the real XMLResource.get_url -> normalize_url -> access_control chain on a resource built by the
real constructor (text source, so nothing is opened), with a SYMBOLIC location / URL string.
"""
from urllib.parse import unquote, urlsplit

from xmlschema import XMLResource
from engine.sym import pick
from xmlschema.exceptions import XMLResourceBlocked, XMLSchemaException

ID = "C12"
CFG = {"base": "/base/sand", "allow": "sandbox", "alpha": "sa/._%2e", "maxlen": 4, "prefix": ""}
RES = {}


def configure(cfg):
    CFG.update(cfg)
    RES["r"] = XMLResource('<a/>', base_url=CFG["base"], allow=CFG["allow"])
    RES["all"] = XMLResource('<a/>', base_url=CFG["base"], allow='all')


configure({})


def _alpha_ok(s):
    if len(s) > CFG["maxlen"]:
        return False
    for ch in s:
        if ch not in CFG["alpha"]:
            return False
    return True


def pre_loc(fn, **kw):
    return _alpha_ok(kw["loc"])


def _base_path():
    b = CFG["base"]
    if b.startswith('file://'):
        b = unquote(urlsplit(b).path)
    return b.rstrip('/') or '/'


def _under(path, base):
    """component-wise containment of a normalised absolute path"""
    if '/../' in path + '/' or '/./' in path + '/':
        return False
    return path == base or path.startswith(base.rstrip('/') + '/')


def h_sandbox_url(loc: str) -> bool:
    """kernel: access_control on an already normalised file URL  file://<base><tail>"""
    url = 'file://' + _base_path() + loc
    try:
        RES["r"].access_control(url)
    except XMLResourceBlocked:
        return True
    # accepted: the URL must denote the base directory or something inside it
    return _under(unquote(url[len('file://'):]), _base_path())


SEGS = ['..', '.', 's', 'sand', 'sanda', '%2e%2e', '', 'base', 'sand%2f..', '%252e%252e', '%2E.']


def pre_segs(fn, **kw):
    for v in kw.values():
        if not (0 <= v < len(SEGS)):
            return False
    return True


def h_sandbox_segs(**kw) -> bool:
    """finite-choice spelling: prefix + '/'-joined segments chosen by symbolic indices (pathlib/posixpath are C-level
    and do not tolerate symbolic strings, so the spelling is fixed before the real resolver runs)"""
    segs = [SEGS[pick(kw["g%d" % k], len(SEGS))] for k in range(len(kw))]
    return h_sandbox_loc('/'.join(segs))


def h_sandbox_loc(loc: str) -> bool:
    """a location spelled by the user (relative, dotted, percent-encoded, absolute, file URL), resolved by the real
    get_url/normalize_url against the resource's base, then checked by the real access_control"""
    loc = CFG["prefix"] + loc
    r = RES["r"]
    try:
        url = r.get_url(loc)
        r.access_control(url)
    except XMLSchemaException:
        return True        # blocked or refused spelling: nothing is fetched
    except ValueError:
        return True        # urlsplit refuses the spelling: nothing is fetched
    parts = urlsplit(url)
    if parts.scheme != 'file':
        return False       # sandbox mode must never let a non-file URL through
    return _under(unquote(parts.path), _base_path())


def h_classify(loc: str) -> bool:
    """allow modes none/local/remote vs. a reference classifier of the URL that would be fetched"""
    from xmlschema.utils.urls import is_local_url, is_remote_url
    url = CFG["prefix"] + loc
    try:
        sch = urlsplit(url.strip()).scheme
    except ValueError:
        # not a URL at all: neither class may claim it as fetchable-remote
        return not is_remote_url(url)
    local_ref = sch == '' or sch == 'file' or (len(sch) == 1 and sch.isalpha() and sch.isascii())
    if is_local_url(url) == is_remote_url(url):
        return False
    if is_local_url(url) != local_ref:
        return False
    r = RES["r"]
    try:
        r.access_control(url)
        passed = True
    except XMLResourceBlocked:
        passed = False
    if CFG["allow"] == 'none':
        return not passed
    if CFG["allow"] == 'local':
        return passed == local_ref
    if CFG["allow"] == 'remote':
        return passed == (not local_ref)
    return True


# ---------------------------------------------------------------- reach: every reference mechanism is confined
# A temporary tree <tmp>/sand/{main schemas, in.xsd, sub/in2.xsd}, <tmp>/outside/x.xsd, <tmp>/sandbox2/x.xsd (a sibling
# directory sharing the sandbox name as prefix).  The outside schemas declare an element that must never appear in the
# built schema or decide a verdict when allow='sandbox' (or 'none'); the inside ones must load.
MECHS = ["include", "import", "redefine", "override", "locations-arg", "instance-hint", "instance-source"]
SPELL = ["in.xsd", "sub/in2.xsd", "../outside/x.xsd", "ABS/outside/x.xsd", "file://ABS/outside/x.xsd", "sub/../../outside/x.xsd",
         "../sand2/x.xsd", "ABS/sand/../outside/x.xsd", "file://ABS/sand/%2e%2e/outside/x.xsd", "ABS/sand/in.xsd", "./sub/../in.xsd"]
INSIDE = {0, 1, 9, 10}
_TREE = {}


def _tree():
    if "root" not in _TREE:
        import atexit
        import os
        import shutil
        import tempfile
        root = os.path.realpath(tempfile.mkdtemp(prefix="c12reach"))
        atexit.register(shutil.rmtree, root, True)
        for d in ("sand/sub", "outside", "sand2"):
            os.makedirs(os.path.join(root, d))
        _TREE["root"] = root
    return _TREE["root"]


def _schema_text(tns, body):
    return ('<xs:schema xmlns:xs="http://www.w3.org/2001/XMLSchema"%s elementFormDefault="qualified">%s</xs:schema>'
            % (' targetNamespace="%s" xmlns:t="%s"' % (tns, tns) if tns else '', body))


def _write(path, text):
    with open(path, "w") as f:
        f.write(text)


def pre_reach(fn, m, sp):
    return 0 <= m < len(MECHS) and 0 <= sp < len(SPELL)


def h_reach(m: int, sp: int) -> bool:
    import os
    import warnings
    import xmlschema
    from xmlschema.exceptions import XMLSchemaException
    from engine.sym import pick
    mech = MECHS[pick(m, len(MECHS))]
    si = pick(sp, len(SPELL))
    from engine.sym import real_io
    with real_io():
        return _reach_concrete(mech, si)


def _reach_concrete(mech, si):
    import os
    import xmlschema
    from xmlschema.exceptions import XMLSchemaException
    root = _tree()
    if mech == "instance-source":
        return _instance_source(root, si)
    loc = SPELL[si].replace("ABS", root)
    inside = si in INSIDE
    foreign = mech in ("import", "locations-arg", "instance-hint")      # the referenced schema has its own namespace
    ref_tns = "urn:o" if foreign else "urn:m"
    marker = '<xs:element name="marker" type="xs:int"/>'
    ref_body = marker
    if mech == "redefine":
        ref_body += '<xs:simpleType name="st"><xs:restriction base="xs:string"/></xs:simpleType>'
    for rel in ("sand/in.xsd", "sand/sub/in2.xsd", "outside/x.xsd", "sand2/x.xsd"):
        _write(os.path.join(root, rel), _schema_text(ref_tns, ref_body))
    if mech == "include":
        body = '<xs:include schemaLocation="%s"/>' % loc
    elif mech == "import":
        body = '<xs:import namespace="urn:o" schemaLocation="%s"/>' % loc
    elif mech == "redefine":
        body = '<xs:redefine schemaLocation="%s"/>' % loc
    elif mech == "override":
        body = '<xs:override schemaLocation="%s"/>' % loc
    else:
        body = '<xs:import namespace="urn:o"/>' if mech == "locations-arg" else ''
    body += '<xs:element name="doc"><xs:complexType><xs:sequence><xs:any namespace="##other" processContents="lax" minOccurs="0"/></xs:sequence></xs:complexType></xs:element>'
    main = os.path.join(root, "sand", "main.xsd")
    _write(main, _schema_text("urn:m", body))
    cls = xmlschema.XMLSchema11 if mech == "override" else xmlschema.XMLSchema10
    kwargs = {"allow": "sandbox"}
    if mech == "locations-arg":
        kwargs["locations"] = {"urn:o": loc}
    # probe instance: <o:marker> with a non-integer value is invalid exactly when the referenced schema was loaded
    probe = '<doc xmlns="urn:m"><o:marker xmlns:o="urn:o"%s>x</o:marker></doc>'
    hint = ' xmlns:xsi="http://www.w3.org/2001/XMLSchema-instance" xsi:schemaLocation="urn:o %s"' % loc if mech == "instance-hint" else ''
    if True:
        try:
            schema = cls(main, **kwargs)
            ns = ref_tns
            loaded = ('{%s}marker' % ns) in schema.maps.elements
            if foreign:
                inst = os.path.join(root, "sand", "inst.xml")
                _write(inst, probe % hint)
                try:
                    errors = list(schema.iter_errors(inst, use_location_hints=(mech == "instance-hint")))
                except XMLSchemaException:
                    errors = None          # refused: acceptable for a denied location
                loaded = ('{%s}marker' % ns) in schema.maps.elements
                if errors is not None and not inside and errors:
                    return False           # the outside schema decided a verdict
        except XMLSchemaException:
            return not inside              # a blocked reference may be reported as an error; an inside one must load
    return loaded == inside


def _instance_source(root, si):
    """the spelled location is the INSTANCE handed to the schema's validation API: a schema created with allow='sandbox'
    opens it only inside its sandbox"""
    import os
    import xmlschema
    from xmlschema.exceptions import XMLSchemaException
    main = os.path.join(root, "sand", "main_i.xsd")
    _write(main, _schema_text("urn:m", '<xs:element name="doc" type="xs:int"/>'))
    for rel in ("sand/in.xsd", "sand/sub/in2.xsd", "outside/x.xsd", "sand2/x.xsd"):          # same file names, instance content
        _write(os.path.join(root, rel), '<doc xmlns="urn:m">notanint</doc>')
    # an explicit base_url fixes the sandbox for every resource opened on behalf of the schema (without it the sandbox of an
    # instance given by the caller is the instance's own directory, by design)
    schema = xmlschema.XMLSchema10(main, allow="sandbox", base_url=os.path.join(root, "sand"))
    loc = SPELL[si].replace("ABS", root)
    if not (loc.startswith('/') or loc.startswith('file:')):
        loc = os.path.join(root, "sand", loc)          # a relative instance path is relative to the process, make it explicit
    inside = si in INSIDE
    try:
        errors = list(schema.iter_errors(loc))
    except XMLSchemaException:
        return not inside          # blocked
    except OSError:
        return not inside
    return inside and len(errors) == 1          # opened: allowed only inside, and then really validated


def explain(fn, args):
    if fn == "h_reach":
        return "allow='sandbox', %s with location %r (sandbox = directory of the main schema)" % (MECHS[args["m"]], SPELL[args["sp"]])
    if fn == "h_sandbox_segs":
        args = {"loc": '/'.join(SEGS[args["g%d" % k]] for k in range(len(args)))}
        fn = "h_sandbox_loc"
    loc = CFG["prefix"] + args["loc"]
    out = "base=%r allow=%r location=%r" % (CFG["base"], CFG["allow"], loc)
    try:
        if fn == "h_sandbox_url":
            url = 'file://' + _base_path() + args["loc"]
        else:
            url = RES["r"].get_url(loc)
        out += " -> url %r" % url
        RES["r"].access_control(url)
        out += " ACCEPTED"
    except Exception as e:
        out += " %s: %s" % (type(e).__name__, e)
    return out


META = {
    "level": "model_checking",
    "symbolic_kind": "string (sandbox kernel, classification); finite-choice (spelled locations)",
    "functions": [
        "xmlschema.resources.xml_resource.XMLResource.access_control",
        "xmlschema.resources.xml_resource.XMLResource.get_url",
        "xmlschema.utils.urls.normalize_url",
        "xmlschema.utils.urls.is_local_url",
        "xmlschema.utils.urls.is_remote_url",
        "xmlschema.utils.urls.is_local_scheme",
        "xmlschema.utils.paths.LocationPath.from_uri",
    ],
    "bounds": {},
    "outside": "symlinks, Windows semantics, DNS/network behaviour; reach through include/import/redefine/override/location hints is "
               "covered only in so far as all of them construct an XMLResource with the propagated allow/base_url settings",
    "stubs": ["nothing is opened: the resource has a text source and only get_url/access_control are called"],
    "assumptions": ["the URL handed to the opener is exactly the string returned by get_url (XMLResource.open uses self.url)"],
}


def obligations(tier, seed):
    quick = tier == "quick"
    out = []
    to = 150 if quick else 1200
    ml = 3 if quick else 5
    for base in ("/base/sand", "/base/sand/", "file:///base/sand"):
        out.append({"name": "sandbox-url/%s" % base, "fn": "h_sandbox_url", "pre": "pre_loc", "args": [["loc", "str"]],
                    "config": {"base": base, "allow": "sandbox", "alpha": "sa/_", "maxlen": ml, "prefix": ""},
                    "timeout": to, "twin_timeout": 30, "bound": "tail <= %d chars over 'sa/_'" % ml})
    for base in ("/base/sand", "file:///base/sand", "/base/sand/"):
        for prefix in ("", "../", "/base/", "file:///base/", "file:/base/sand/", "sand/../../"):
            for k in ((1, 2) if quick else (1, 2, 3)):
                if quick and base.endswith('/') and k > 1:
                    continue
                out.append({"name": "sandbox-segs/%s/%s/%d" % (base, prefix, k), "fn": "h_sandbox_segs", "pre": "pre_segs",
                            "args": [["g%d" % i, "int"] for i in range(k)],
                            "config": {"base": base, "allow": "sandbox", "prefix": prefix},
                            "timeout": to, "twin_timeout": 30,
                            "bound": "location = %r + %d segments from %r joined by '/' (finite choice)" % (prefix, k, SEGS)})
    out.append({"name": "reach", "fn": "h_reach", "pre": "pre_reach", "args": [["m", "int"], ["sp", "int"]], "config": {},
                "timeout": 600, "twin_timeout": 60,
                "bound": "mechanisms %r x location spellings %r, real files in a temporary tree (finite choice; construction outside the tracer)" % (MECHS, SPELL)})
    for allow in ("none", "local", "remote"):
        for prefix, alpha in (("", "f:/a"), ("", "h:/ "), ("fil", "e:/a"), ("htt", "p:/x")):
            out.append({"name": "classify/%s/%s[%s]" % (allow, prefix, alpha), "fn": "h_classify", "pre": "pre_loc", "args": [["loc", "str"]],
                        "config": {"base": "/base/sand", "allow": allow, "alpha": alpha, "maxlen": ml, "prefix": prefix},
                        "timeout": to, "twin_timeout": 30, "bound": "url = %r + <= %d chars over %r" % (prefix, ml, alpha)})
    return out
