"""C10 - validation results never depend on what the schema object processed before.

Engine A (CrossHair), finite-choice histories: a history of up to two (operation, document) steps chosen by symbolic
indices is run on a schema object built fresh for this path (construction happens with the tracer suspended: schema
construction cannot be executed under it); then a probe document is processed and the (verdict, errors, data) triple is
compared with the one of a second fresh schema object that has processed nothing.  The documents exercise the state the
library mutates during validation: xsi:type uses recorded on element declarations and propagated into identity
selectors, the per-schema scratch context, memo caches.
"""
import xml.etree.ElementTree as ET

import xmlschema
from xmlschema import XMLSchemaValidationError
from xmlschema.exceptions import XMLSchemaException

from engine.sym import pick

ID = "C10"
XSI = 'xmlns:xsi="http://www.w3.org/2001/XMLSchema-instance"'
CFG = {"version": "1.0", "steps": 2}

_XSD = """<xs:schema xmlns:xs="http://www.w3.org/2001/XMLSchema">
 <xs:complexType name="T0"><xs:sequence><xs:element name="v" type="xs:int" minOccurs="0"/></xs:sequence><xs:attribute name="k" type="xs:anySimpleType"/><xs:anyAttribute namespace="##other" processContents="lax"/></xs:complexType>
 <xs:complexType name="T2"><xs:complexContent><xs:restriction base="T0"><xs:sequence><xs:element name="v" type="xs:int" minOccurs="0"/></xs:sequence>
     <xs:attribute name="k" type="xs:integer"/></xs:restriction></xs:complexContent></xs:complexType>
 <xs:complexType name="T1"><xs:complexContent><xs:extension base="T0"><xs:sequence>
     <xs:element name="sub" minOccurs="0" maxOccurs="unbounded"><xs:complexType><xs:attribute name="k" type="xs:int"/></xs:complexType></xs:element>
   </xs:sequence></xs:extension></xs:complexContent></xs:complexType>
 <xs:element name="r"><xs:complexType><xs:sequence>
   <xs:element name="i" type="T0" minOccurs="0" maxOccurs="unbounded"/>
   <xs:element name="f" type="xs:decimal" fixed="1.0" minOccurs="0"/>
   %(S_ELEM)s
   <xs:any namespace="##other" processContents="lax" minOccurs="0"/>
  </xs:sequence></xs:complexType>
  <xs:key name="K"><xs:selector xpath="i|i/sub"/><xs:field xpath="@k"/></xs:key>
 </xs:element></xs:schema>"""

# XSD 1.1 only: a simple-content element with an assertion on $value (absent from the 1.0 schema, where <s> is a plain string)
_S_11 = ('<xs:element name="s" minOccurs="0"><xs:complexType><xs:simpleContent><xs:extension base="xs:string">'
         '<xs:assert test="$value = (\'A\', \'B\')"/></xs:extension></xs:simpleContent></xs:complexType></xs:element>')
_S_10 = '<xs:element name="s" type="xs:string" minOccurs="0"/>'
XLINK = 'xmlns:xlink="http://www.w3.org/1999/xlink"'

DOCS = [
    '<r><i k="1"><v>1</v></i><i k="2"/></r>',                                                              # valid
    '<r %s><i k="1" xsi:type="T1"><v>1</v><sub k="5"/></i><i k="2"/><f>1</f></r>' % XSI,                    # valid, xsi:type with complex content
    '<r><i k="x"><v>bad</v></i><i k="1"/><i k="1"/></r>',                                                   # invalid early and late
    '<r %s><i k="1" xsi:type="T1"><sub k="1"/></i></r>' % XSI,                                              # duplicate key through the xsi:type'd content
    '<r><i k="3"/><f>2</f><x xmlns="urn:other"/></r>',                                                     # fixed violated + foreign child
    '<r %s><i k="1" xsi:type="T1"><sub k="7"/><sub k="7"/></i></r>' % XSI,                                  # duplicate keys among sub elements
    '<r %s><i k="5" xsi:type="T2"/><i k="6" xsi:type="T2"/></r>' % XSI,                                    # xsi:type that retypes the key field (integer)
    '<r><i k="1"/><i k="01"/></r>',                                                                        # distinct untyped key values, equal as integers
    '<r %s><i k="1"/><note xmlns="urn:other" xsi:type="xs:string">x</note></r>' % XSI.replace('xmlns:xsi', 'xmlns:xs="http://www.w3.org/2001/XMLSchema" xmlns:xsi'),   # undeclared element with xsi:type under the lax wildcard
    '<r %s><i k="1"/><note xmlns="urn:other" xsi:nil="true"/></r>' % XSI,                                  # the same undeclared tag, nilled
    '<r %s><i k="1"/><note xmlns="urn:other" xsi:type="xs:string">x</note></r>' % XSI.replace('xmlns:xsi', 'xmlns:xs="urn:not-the-xsd-namespace" xmlns:xsi'),   # the same xsi:type string, its prefix bound to another namespace
    '<r><i k="1"/><s>A</s></r>',                                                                           # the asserted value present
    '<r><i k="1"/><s/></r>',                                                                               # an empty element under the same assertion
    '<r %s><i k="1" xlink:type="bogus"/></r>' % XLINK,                                                     # an attribute of a namespace that is loaded on demand (bundled XLink schema)
]
PROBES = [3, 5, 7, 9, 10, 11, 12]          # quick tier: probe documents whose result depends on state the library keeps (positions in MAIN_DOCS)
MAIN_DOCS = list(range(13))                 # every document but the last: loading the XLink schema on demand under the tracer costs seconds
ONDEMAND_DOCS = [0, 13]
# Template 2: one global element referenced under two parents, each parent with its own key reaching content that exists
# only through xsi:type (the selector widening recorded on the shared declaration must not depend on who came first).
_XSD2 = """<xs:schema xmlns:xs="http://www.w3.org/2001/XMLSchema">
 <xs:complexType name="T0"><xs:sequence/></xs:complexType>
 <xs:complexType name="T1"><xs:complexContent><xs:extension base="T0"><xs:sequence>
   <xs:element name="sub" minOccurs="0" maxOccurs="unbounded"><xs:complexType><xs:attribute name="a" type="xs:int"/></xs:complexType></xs:element>
 </xs:sequence></xs:extension></xs:complexContent></xs:complexType>
 <xs:element name="g" type="T0"/>
 <xs:element name="r"><xs:complexType><xs:sequence>
   <xs:element name="A" minOccurs="0"><xs:complexType><xs:sequence><xs:element ref="g" maxOccurs="unbounded"/></xs:sequence></xs:complexType>
      <xs:key name="KA"><xs:selector xpath="g/sub"/><xs:field xpath="@a"/></xs:key></xs:element>
   <xs:element name="B" minOccurs="0"><xs:complexType><xs:sequence><xs:element ref="g" maxOccurs="unbounded"/></xs:sequence></xs:complexType>
      <xs:key name="KB"><xs:selector xpath="g/sub"/><xs:field xpath="@a"/></xs:key></xs:element>
 </xs:sequence></xs:complexType></xs:element></xs:schema>"""
DOCS2 = [
    '<r %s><A><g xsi:type="T1"><sub a="1"/><sub a="1"/></g></A></r>' % XSI,          # duplicate under A
    '<r %s><B><g xsi:type="T1"><sub a="1"/><sub a="1"/></g></B></r>' % XSI,          # duplicate under B
    '<r %s><A><g xsi:type="T1"><sub a="1"/><sub a="2"/></g></A><B><g xsi:type="T1"><sub a="1"/><sub a="1"/></g></B></r>' % XSI,   # valid under A, duplicate under B
    '<r %s><A><g/></A><B><g xsi:type="T1"><sub a="3"/></g></B></r>' % XSI,           # valid
    '<r><A><g/></A></r>',                                                             # valid, no xsi:type
]
OPS = ["is_valid", "validate", "iter_errors", "decode-lax", "decode-strict", "to_objects", "iter_errors-partial", "encode",
       "iter_errors-max_depth1", "is_valid-lazy", "decode-max_depth2"]


def configure(cfg):
    CFG["fixed"] = {}
    CFG["docsel"] = None
    CFG["tpl"] = None
    CFG["psel"] = None
    CFG.update(cfg)


def _a(kw, name):
    return kw[name] if name in kw else CFG.get("fixed", {}).get(name, 0)


def _fresh():
    cls = xmlschema.XMLSchema10 if CFG["version"] == "1.0" else xmlschema.XMLSchema11
    try:
        from crosshair.tracers import NoTracing, is_tracing
        if is_tracing():
            with NoTracing():
                return cls(_schema_text())
    except ImportError:
        pass
    return cls(_schema_text())


def _schema_text():
    if CFG.get("tpl") == 2:
        return _XSD2
    return _XSD % {"S_ELEM": _S_11 if CFG["version"] == "1.1" else _S_10}


def _run(schema, op, doc):
    """one history step; exceptions of the library hierarchy are part of normal use (strict failures)"""
    try:
        if op == "is_valid":
            schema.is_valid(doc)
        elif op == "validate":
            schema.validate(doc)
        elif op == "iter_errors":
            list(schema.iter_errors(doc))
        elif op == "decode-lax":
            schema.decode(doc, validation='lax')
        elif op == "decode-strict":
            schema.decode(doc)
        elif op == "to_objects":
            schema.to_objects(doc, validation='lax')
        elif op == "iter_errors-partial":
            it = schema.iter_errors(doc)          # an aborted validation: the generator is abandoned after one step
            next(it, None)
            del it
        elif op == "encode":
            data, _ = schema.decode(doc, validation='lax')
            schema.encode(data, validation='lax')
        elif op == "iter_errors-max_depth1":
            list(schema.iter_errors(doc, max_depth=1))          # a depth-limited run
        elif op == "is_valid-lazy":
            schema.is_valid(xmlschema.XMLResource(doc, lazy=True))
        elif op == "decode-max_depth2":
            schema.decode(doc, validation='lax', max_depth=2)
    except XMLSchemaException:
        pass


def _norm_reason(r):
    # engine artefact (DESIGN 10): under the tracer str.format() renders a 1-tuple as "(7)" instead of "(7,)"
    return (r or '').replace(',)', ')')


def _probe(schema, doc):
    errs = [(_norm_reason(e.reason), e.path) for e in schema.iter_errors(doc)]
    data, derrs = schema.decode(doc, validation='lax')
    return not errs, errs, data, [_norm_reason(e.reason) for e in derrs]


THOROUGH_OPS = ("is_valid", "decode-lax", "iter_errors-partial", "decode-max_depth2")
THOROUGH_DOCS = [1, 3, 5, 8, 10, 12]          # six documents: 216 histories per obligation (nine did not finish within the time-out)


def _docs():
    docs = DOCS2 if CFG.get("tpl") == 2 else DOCS
    sel = CFG.get("docsel")
    return [docs[i] for i in sel] if sel else docs


def pre_hist(fn, **kw):
    for k, v in kw.items():
        lim = len(OPS) if k[0] == 'o' else (len(CFG["psel"]) if (k == 'p' and CFG.get("psel")) else len(_docs()))
        if not (0 <= v < lim):
            return False
    return True


_REF = {}


def _reference(pi):
    """the result of a fresh, unused schema object for probe document #pi (the oracle side; computed once per process
    outside the tracer, a fresh object each time)"""
    key = (CFG["version"], CFG.get("tpl"), pi)
    if key not in _REF:
        try:
            from crosshair.tracers import NoTracing, is_tracing
            if is_tracing():
                with NoTracing():
                    _REF[key] = _probe(_fresh(), _docs()[pi])
                return _REF[key]
        except ImportError:
            pass
        _REF[key] = _probe(_fresh(), _docs()[pi])
    return _REF[key]


def h_history(**kw) -> bool:
    work = _fresh()
    docs = _docs()
    for s in range(CFG["steps"]):
        op = OPS[pick(_a(kw, "o%d" % s), len(OPS))]
        doc = docs[pick(_a(kw, "d%d" % s), len(docs))]
        _run(work, op, doc)
    psel = CFG.get("psel")
    pi = psel[pick(kw["p"], len(psel))] if psel else pick(kw["p"], len(docs))
    return _probe(work, docs[pi]) == _reference(pi)


def explain(fn, args):
    DOCS = _docs()
    hist = [(OPS[_a(args, "o%d" % s)], DOCS[_a(args, "d%d" % s)][:60]) for s in range(CFG["steps"])]
    work, ref = _fresh(), _fresh()
    for s in range(CFG["steps"]):
        _run(work, OPS[_a(args, "o%d" % s)], DOCS[_a(args, "d%d" % s)])
    probe = DOCS[CFG["psel"][args["p"]] if CFG.get("psel") else args["p"]]
    return "history %r probe %s: after history %r, fresh %r" % (hist, probe[:60], _probe(work, probe)[:2], _probe(ref, probe)[:2])


META = {
    "level": "model_checking",
    "symbolic_kind": "finite-choice call histories",
    "functions": [
        "xmlschema.validators.elements.XsdElement.raw_decode", "xmlschema.validators.identities.XsdIdentity.update_elements",
        "xmlschema.validators.validation.ValidationContext", "xmlschema.caching.SchemaCache",
        "xmlschema.validators.schemas.XMLSchemaBase.iter_errors", "xmlschema.validators.schemas.XMLSchemaBase.iter_decode",
    ],
    "bounds": {},
    "outside": "histories longer than two steps, lazy runs, threads (C18), documents beyond the pool",
    "stubs": ["schema construction runs with the tracer suspended (NoTracing); every call of the validation API runs under the tracer"],
    "assumptions": [],
}


def obligations(tier, seed):
    quick = tier == "quick"
    out = []
    for version in ("1.0", "1.1"):
        for o0 in range(len(OPS)):
            if quick and not (OPS[o0] in ("is_valid", "decode-lax", "to_objects", "validate", "iter_errors-partial", "decode-max_depth2", "is_valid-lazy") and (version == "1.0" or o0 in (0, 3))):
                continue
            if quick:
                # one obligation per first operation: first document, second step and probe symbolic
                out.append({"name": "history/%s/first=%s" % (version, OPS[o0]), "fn": "h_history", "pre": "pre_hist",
                            "args": [["d0", "int"], ["p", "int"]],
                            "config": {"version": version, "steps": 1, "fixed": {"o0": o0}, "psel": PROBES, "docsel": MAIN_DOCS}, "timeout": 600, "twin_timeout": 40,
                            "bound": "histories of 1 step (%s on any of %d documents), probe documents %r" % (OPS[o0], len(MAIN_DOCS), PROBES)})
                if OPS[o0] == "is_valid":
                    out.append({"name": "history-ondemand/%s" % version, "fn": "h_history", "pre": "pre_hist",
                                "args": [["d0", "int"], ["p", "int"]],
                                "config": {"version": version, "steps": 1, "fixed": {"o0": o0}, "docsel": ONDEMAND_DOCS}, "timeout": 600, "twin_timeout": 40,
                                "bound": "an attribute of a namespace that is loaded on demand: first document and probe from documents %r" % (ONDEMAND_DOCS,)})
            else:
                # two steps: both operations fixed per obligation (a selection of stateful ones), documents and probe symbolic
                # over the documents that leave state behind (xsi:type, identity, wildcard cache)
                if OPS[o0] not in THOROUGH_OPS:
                    continue
                for o1 in range(len(OPS)):
                    if OPS[o1] not in THOROUGH_OPS:
                        continue
                    out.append({"name": "history/%s/%s+%s" % (version, OPS[o0], OPS[o1]), "fn": "h_history", "pre": "pre_hist",
                                "args": [["d0", "int"], ["d1", "int"], ["p", "int"]],
                                "config": {"version": version, "steps": 2, "fixed": {"o0": o0, "o1": o1}, "docsel": THOROUGH_DOCS}, "timeout": 3000, "twin_timeout": 40,
                                "bound": "histories of 2 steps (%s then %s) over documents %r, probes from the same documents" % (OPS[o0], OPS[o1], THOROUGH_DOCS)})
        for o0 in ((0, 3, 10) if quick else [i for i, o in enumerate(OPS) if o in THOROUGH_OPS]):
            if quick and version == "1.1" and o0 == 10:
                continue
            out.append({"name": "history-shared-ref/%s/first=%s" % (version, OPS[o0]), "fn": "h_history", "pre": "pre_hist",
                        "args": [["d0", "int"], ["p", "int"]] if quick else [["d0", "int"], ["d1", "int"], ["p", "int"]],
                        "config": {"version": version, "steps": 1 if quick else 2, "fixed": {"o0": o0, "o1": 0}, "tpl": 2}, "timeout": 600 if quick else 3000, "twin_timeout": 40,
                        "bound": "template 2 (a global element referenced under two parents with their own keys into xsi:type'd content): histories of %d step(s) over %d documents, every probe" % (1 if quick else 2, len(DOCS2))})
    return out
