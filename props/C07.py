"""C07 - dynamic typing, substitution and nil obey derivation, block and abstract rules.

Engine A (CrossHair), P2 + P1: a type hierarchy is built by the real parser; the block / abstract / nillable flags of the
live element and type components are overwritten, per path, with values chosen by symbolic indices, and instance variants
(xsi:type name, xsi:nil value, content variant, substitution member) are chosen by symbolic indices as well; the real
schema.iter_errors() verdict is compared with the rules of XSD Structures 3.3.4 (Element Locally Valid) evaluated on
the template's DECLARED derivation chains (the generator knows each step's method).
Symbolic kind: finite-choice flags and instance variants.
"""
import xml.etree.ElementTree as ET
from decimal import Decimal

import xmlschema

from engine.sym import pick

ID = "C07"
XSI = '{http://www.w3.org/2001/XMLSchema-instance}'
CFG = {"version": "1.0", "fixed": {}}

_XSD = """<xs:schema xmlns:xs="http://www.w3.org/2001/XMLSchema">
  <xs:complexType name="T0"><xs:sequence><xs:element name="x" type="xs:string" minOccurs="0"/></xs:sequence></xs:complexType>
  <xs:complexType name="T1"><xs:complexContent><xs:extension base="T0"><xs:sequence>
      <xs:element name="y" type="xs:string" minOccurs="0"/></xs:sequence></xs:extension></xs:complexContent></xs:complexType>
  <xs:complexType name="T2"><xs:complexContent><xs:restriction base="T0"><xs:sequence>
      <xs:element name="x" type="xs:string"/></xs:sequence></xs:restriction></xs:complexContent></xs:complexType>
  <xs:complexType name="T3"><xs:complexContent><xs:extension base="T1"><xs:sequence>
      <xs:element name="z" type="xs:string" minOccurs="0"/></xs:sequence></xs:extension></xs:complexContent></xs:complexType>
  <xs:complexType name="T4"><xs:complexContent><xs:restriction base="T1"><xs:sequence>
      <xs:element name="x" type="xs:string" minOccurs="0"/></xs:sequence></xs:restriction></xs:complexContent></xs:complexType>
  <xs:complexType name="U"><xs:sequence><xs:element name="x" type="xs:string" minOccurs="0"/></xs:sequence></xs:complexType>
  <xs:element name="e" type="T0"/>
  <xs:element name="h" type="T0"/>
  <xs:element name="m0" type="T0" substitutionGroup="h"/>
  <xs:element name="m1" type="T1" substitutionGroup="h"/>
  <xs:element name="m2" type="T2" substitutionGroup="h"/>
  <xs:element name="mm" type="T3" substitutionGroup="m1"/>
  <xs:element name="p"><xs:complexType><xs:sequence><xs:element ref="h"/></xs:sequence></xs:complexType></xs:element>
  <xs:element name="n" type="xs:decimal" nillable="true"/>
  <xs:element name="f" type="xs:decimal" fixed="1.0"/>
  <xs:element name="nf" type="xs:decimal" nillable="true" fixed="1.0"/>
</xs:schema>"""

# declared derivation chains to T0 (the generator's knowledge, not read from the library)
CHAIN = {"T0": [], "T1": ["extension"], "T2": ["restriction"], "T3": ["extension", "extension"], "T4": ["restriction", "extension"]}
CONTENT_OK = {          # content variant index -> valid for type
    "T0": {0: True, 1: True, 2: False, 3: False}, "T1": {0: True, 1: True, 2: True, 3: False}, "T2": {0: False, 1: True, 2: False, 3: False},
    "T3": {0: True, 1: True, 2: True, 3: True}, "T4": {0: True, 1: True, 2: False, 3: False},
}
CONTENTS = [[], ["x"], ["x", "y"], ["x", "y", "z"]]
BLOCKS = ["", "extension", "restriction", "extension restriction"]
EBLOCKS = BLOCKS + ["substitution", "extension restriction substitution"]
XSITYPES = [None, "T0", "T1", "T2", "T3", "T4", "U", "Missing", "xs:string"]
MEMBERS = ["h", "m0", "m1", "m2", "mm"]
MEMBER_TYPE = {"h": "T0", "m0": "T0", "m1": "T1", "m2": "T2", "mm": "T3"}
_S = {}


def _variant(version, abstract):
    """the element 'abstract' flags feed state derived at build time (XsdElement.substitutes), so they are varied through
    the schema TEXT (one build per variant, outside the tracer), not by overwriting live components.
    The schema blocks everything by default (blockDefault="#all") and every global element and named type lifts the block
    with an explicit block="": the effective values are empty, as without the default, but the explicit empty value has to
    win over the schema default (missed seed of round 4)."""
    key = (version, tuple(sorted(abstract)))
    if key not in _S:
        cls = xmlschema.XMLSchema10 if version == "1.0" else xmlschema.XMLSchema11
        text = _XSD.replace('<xs:schema xmlns:xs="http://www.w3.org/2001/XMLSchema">', '<xs:schema xmlns:xs="http://www.w3.org/2001/XMLSchema" blockDefault="#all">', 1)
        text = text.replace('\n  <xs:element name=', '\n  <xs:element block="" name=').replace('\n  <xs:complexType name=', '\n  <xs:complexType block="" name=')
        for name in abstract:
            text = text.replace('<xs:element block="" name="%s" ' % name, '<xs:element block="" name="%s" abstract="true" ' % name)
        s = cls(text)
        s.maps.cache.enabled = False
        _S[key] = s
    return _S[key]


def configure(cfg):
    CFG["fixed"] = {}
    CFG["abstract"] = []
    CFG.update(cfg)
    v = CFG["version"]
    _variant(v, CFG["abstract"])
    if v not in _S:
        _S[v] = _variant(v, [])


def _a(kw, name):
    """argument value: symbolic when the obligation passes it, otherwise the value fixed by the configuration (default 0)"""
    if name in kw:
        return kw[name]
    return CFG.get("fixed", {}).get(name, 0)


def _fill(elem, ci):
    for t in CONTENTS[ci]:
        ET.SubElement(elem, t).text = 'v'


def pre_idx(fn, **kw):
    lim = {"eb": len(EBLOCKS), "tb": len(BLOCKS), "xt": len(XSITYPES), "ct": len(CONTENTS), "ab": 6, "mb": len(MEMBERS), "hab": 2, "mab": 2,
           "nil": 5, "txt": 5, "el": 3, "kk": 4, "iab": 2, "at": 5}
    for k, v in kw.items():
        if not (0 <= v < lim[k]):
            return False
    return True


def h_xsitype(**kw) -> bool:
    """element e (declared type T0) with xsi:type: valid iff the type exists, is derived from T0 by a chain none of whose
    steps is blocked by the element or by T0, is not abstract, and the content is valid for it"""
    s = _variant(CFG["version"], [])
    e = s.elements["e"]
    eblock = BLOCKS[pick(_a(kw, 'eb'), len(BLOCKS))]
    tblock = BLOCKS[pick(_a(kw, 'tb'), len(BLOCKS))]
    xname = XSITYPES[pick(_a(kw, 'xt'), len(XSITYPES))]
    ci = pick(_a(kw, 'ct'), len(CONTENTS))
    abst = [None, "T0", "T1", "T2", "T3", "T4"][pick(_a(kw, 'ab'), 6)]
    old = (e._block, s.types["T0"]._block, {n: s.types[n].abstract for n in CHAIN})
    e._block, s.types["T0"]._block = eblock, tblock
    for n in CHAIN:
        s.types[n].abstract = (n == abst)
    try:
        root = ET.Element('e')
        if xname is not None:
            root.set(XSI + 'type', xname)
        _fill(root, ci)
        errors = list(s.iter_errors(root))
    finally:
        e._block, s.types["T0"]._block = old[0], old[1]
        for n, a in old[2].items():
            s.types[n].abstract = a
    governing = xname or "T0"
    if governing not in CHAIN:
        want = False                      # unknown type, unrelated type U, or a simple type not derived from T0
    else:
        blocked = set((eblock + " " + tblock).split())
        want = not any(step in blocked for step in CHAIN[governing]) and governing != abst and CONTENT_OK[governing][ci]
    return (not errors) == want


def h_subst(**kw) -> bool:
    """<p> contains one child in place of head h: a member is accepted iff substitution is not blocked on the head, the
    member is not abstract, and no derivation step from the member's type to the head's type is blocked; an abstract
    INTERMEDIATE member does not hide the members of its own group"""
    s = _variant(CFG["version"], CFG["abstract"])
    h = s.elements["h"]
    hblock = EBLOCKS[pick(_a(kw, 'eb'), len(EBLOCKS))]
    tblock = BLOCKS[pick(_a(kw, 'tb'), len(BLOCKS))]
    member = MEMBERS[pick(_a(kw, 'mb'), len(MEMBERS))]
    ci = pick(_a(kw, 'ct'), len(CONTENTS))
    old = (h._block, s.types["T0"]._block)
    h._block, s.types["T0"]._block = hblock, tblock
    try:
        root = ET.Element('p')
        child = ET.SubElement(root, member)
        _fill(child, ci)
        errors = list(s.iter_errors(root))
    finally:
        h._block, s.types["T0"]._block = old
    mtype = MEMBER_TYPE[member]
    is_abstract = member in CFG["abstract"]
    if member == "h":
        want = (not is_abstract) and CONTENT_OK["T0"][ci]
    else:
        blocked = set((hblock + " " + tblock).split())
        want = ("substitution" not in blocked) and not is_abstract and \
            not any(step in blocked for step in CHAIN[mtype]) and CONTENT_OK[mtype][ci]
    return (not errors) == want


NILS = [None, "true", "1", "false", "x"]
TEXTS = [None, "", "1", "1.00", "2"]


def h_nil_fixed(**kw) -> bool:
    """xsi:nil='true' only on nillable elements with empty content and no fixed value; fixed values compare in value space"""
    s = _variant(CFG["version"], [])
    name = ["n", "f", "nf"][pick(_a(kw, 'el'), 3)]
    nilv = NILS[pick(_a(kw, 'nil'), len(NILS))]
    text = TEXTS[pick(_a(kw, 'txt'), len(TEXTS))]
    root = ET.Element(name)
    if nilv is not None:
        root.set(XSI + 'nil', nilv)
    root.text = text
    errors = list(s.iter_errors(root))
    nillable = name in ("n", "nf")
    fixed = name in ("f", "nf")
    want = True
    nilled = False
    if nilv is not None:
        if not nillable or nilv == "x":
            want = False
        elif nilv in ("true", "1"):
            if fixed or text is not None:
                want = False
            else:
                nilled = True
    if not nilled:
        if fixed:
            if text:            # empty content takes the fixed value
                try:
                    if Decimal(text) != Decimal("1.0"):
                        want = False
                except Exception:
                    want = False
        else:
            if not text:
                want = False        # empty text is not a decimal
    return (not errors) == want


# ---------------------------------------------------------------- XSD 1.1 type alternatives

_ALT_XSD = """<xs:schema xmlns:xs="http://www.w3.org/2001/XMLSchema">
  <xs:complexType name="B"><xs:sequence><xs:element name="x" type="xs:string" minOccurs="0"/></xs:sequence><xs:attribute name="k" type="xs:string"/></xs:complexType>
  <xs:complexType name="A1"><xs:complexContent><xs:extension base="B"><xs:sequence><xs:element name="y" type="xs:string"/></xs:sequence></xs:extension></xs:complexContent></xs:complexType>
  <xs:complexType name="A2"><xs:complexContent><xs:restriction base="B"><xs:sequence><xs:element name="x" type="xs:string"/></xs:sequence></xs:restriction></xs:complexContent></xs:complexType>
  <xs:complexType name="A11"><xs:complexContent><xs:extension base="A1"><xs:sequence><xs:element name="z" type="xs:string" minOccurs="0"/></xs:sequence></xs:extension></xs:complexContent></xs:complexType>
  <xs:element name="a" type="B">
    <xs:alternative test="@k='a'" type="A1"/>
    <xs:alternative test="@k='a' or @k='b'" type="A2"/>
  </xs:element></xs:schema>"""
_ALT = {}
KS = [None, "a", "b", "c"]


ATYPES = [None, "B", "A1", "A2", "A11"]
A_PARENT = {"A1": "B", "A2": "B", "A11": "A1", "B": None}
A_CONTENT_OK = {"B": (0, 1), "A1": (2,), "A2": (1,), "A11": (2, 3)}


def h_alt(**kw) -> bool:
    """the FIRST alternative whose test holds selects the governing type (k='a' -> A1 although the second test holds too);
    an xsi:type on the instance must be validly derived from the SELECTED type (Structures 1.1, 3.3.4.3 clause 4) and
    then governs"""
    if "s" not in _ALT:
        raise RuntimeError("alternative schema not built")
    s = _ALT["s"]
    k = KS[pick(_a(kw, 'kk'), len(KS))]
    ci = pick(_a(kw, 'ct'), len(CONTENTS))
    xt = ATYPES[pick(_a(kw, 'at'), len(ATYPES))]
    root = ET.Element('a')
    if k is not None:
        root.set('k', k)
    if xt is not None:
        root.set(XSI + 'type', xt)
    _fill(root, ci)
    errors = list(s.iter_errors(root))
    gov = {"a": "A1", "b": "A2"}.get(k, "B")
    if xt is not None:
        t = xt
        while t is not None and t != gov:
            t = A_PARENT[t]
        if t is None:
            return bool(errors)          # the named type is not derived from the selected type
        gov = xt
    return (not errors) == (ci in A_CONTENT_OK[gov])


# ---------------------------------------------------------------- xsi:type on a simple-typed element with block
_SB_XSD = """<xs:schema xmlns:xs="http://www.w3.org/2001/XMLSchema">
<xs:simpleType name="R"><xs:restriction base="xs:integer"><xs:maxInclusive value="9"/></xs:restriction></xs:simpleType>
<xs:complexType name="CE"><xs:simpleContent><xs:extension base="xs:decimal"><xs:attribute name="u"/></xs:extension></xs:simpleContent></xs:complexType>
<xs:element name="e" type="xs:decimal" block="%s"/></xs:schema>"""
SB_TYPES = [("xs:integer", ["restriction"]), ("xs:long", ["restriction"]), ("R", ["restriction"]), ("CE", ["extension"]), ("xs:decimal", []), ("xs:string", None)]
_SB = {}


def _sb_schema(version, bi):
    key = (version, bi)
    if key not in _SB:
        cls = xmlschema.XMLSchema10 if version == "1.0" else xmlschema.XMLSchema11
        _SB[key] = cls(_SB_XSD % BLOCKS[bi])
    return _SB[key]


def pre_sb(fn, st):
    return 0 <= st < len(SB_TYPES)


def h_simple_block(st: int) -> bool:
    """built-in and user simple types named by xsi:type on a decimal element: refused exactly when the type is not derived
    from xs:decimal or a derivation method on its chain is blocked (built-in types derive by restriction)"""
    name, chain = SB_TYPES[pick(st, len(SB_TYPES))]
    s = _sb_schema(CFG["version"], CFG["sb"])
    root = ET.Element('e', {XSI + 'type': name})
    root.text = '1'
    errors = list(s.iter_errors(root, namespaces={'xs': 'http://www.w3.org/2001/XMLSchema'}))
    if chain is None:
        return bool(errors)
    blocked = any(m in BLOCKS[CFG["sb"]].split() for m in chain)
    return bool(errors) == blocked


def explain(fn, args):
    if fn == "h_simple_block":
        return "XSD %s element of type xs:decimal with block=%r, xsi:type=%s" % (CFG["version"], BLOCKS[CFG["sb"]], SB_TYPES[args["st"]][0])
    return "XSD %s %s args %r (blocks %r, xsi types %r, members %r, contents %r)" % (CFG["version"], fn, args, EBLOCKS, XSITYPES, MEMBERS, CONTENTS)


_orig_configure = configure


def configure(cfg):          # noqa: F811
    _orig_configure(cfg)
    if "sb" in cfg:
        _sb_schema(CFG["version"], CFG["sb"])
    if "s" not in _ALT:
        _ALT["s"] = xmlschema.XMLSchema11(_ALT_XSD)


META = {
    "level": "model_checking",
    "symbolic_kind": "finite-choice flags on the built type graph (P2) x finite-choice instance variants",
    "functions": [
        "xmlschema.validators.elements.XsdElement.raw_decode",
        "xmlschema.validators.xsd_globals.XsdGlobals.get_instance_type",
        "xmlschema.validators.xsdbase.XsdType.is_blocked",
        "xmlschema.validators.complex_types.XsdComplexType.is_derived",
        "xmlschema.validators.groups.XsdGroup.check_dynamic_context",
        "xmlschema.validators.elements.Xsd11Element.get_alternative_type",
    ],
    "bounds": {},
    "outside": "hierarchies deeper than two steps, simple-type xsi:type substitution (unions), final/blockDefault parsing (flags are set on the "
               "built components, not through schema text), identity interplay (C08/C10)",
    "stubs": [],
    "assumptions": ["block/abstract flags overwritten on live components take the same form the parser produces (space-separated keywords, booleans)"],
}


def obligations(tier, seed):
    quick = tier == "quick"
    out = []
    for version in ("1.0", "1.1"):
        for eb in range(len(BLOCKS)):
            out.append({"name": "xsitype/%s/eblock=%s" % (version, BLOCKS[eb].replace(' ', '+') or 'none'), "fn": "h_xsitype", "pre": "pre_idx",
                        "args": [["tb", "int"], ["xt", "int"], ["ct", "int"]] + ([] if quick else [["ab", "int"]]),
                        "config": {"version": version, "fixed": {"eb": eb}}, "timeout": 500 if quick else 3000, "twin_timeout": 30,
                        "bound": "type block x 9 xsi:type names x 4 contents" + ("" if quick else " x abstract type choice")})
        out.append({"name": "xsitype-abstract/%s" % version, "fn": "h_xsitype", "pre": "pre_idx", "args": [["xt", "int"], ["ab", "int"]],
                    "config": {"version": version, "fixed": {"eb": 0, "tb": 0, "ct": 1}}, "timeout": 400, "twin_timeout": 30, "bound": "9 xsi:type names x abstract type choice"})
        for abstract in ([], ["h"], ["m1"], ["mm"], ["m1", "m2"], ["h", "m1"]):
            for eb in (range(len(EBLOCKS)) if (not quick or not abstract) else (0, 1)):
                out.append({"name": "subst/%s/abstract=%s/hblock=%s" % (version, '+'.join(abstract) or 'none', EBLOCKS[eb].replace(' ', '+') or 'none'),
                            "fn": "h_subst", "pre": "pre_idx", "args": [["tb", "int"], ["mb", "int"], ["ct", "int"]],
                            "config": {"version": version, "fixed": {"eb": eb}, "abstract": abstract}, "timeout": 500 if quick else 3000, "twin_timeout": 30,
                            "bound": "type block x 5 members (one level, two levels) x 4 contents; abstract elements %r set in the schema text" % (abstract,)})
        out.append({"name": "nil-fixed/%s" % version, "fn": "h_nil_fixed", "pre": "pre_idx", "args": [["el", "int"], ["nil", "int"], ["txt", "int"]],
                    "config": {"version": version}, "timeout": 400, "twin_timeout": 30, "bound": "3 elements x 5 xsi:nil values x 5 contents"})
    for version in ("1.0", "1.1"):
        for bi in range(len(BLOCKS)):
            out.append({"name": "simple-block/%s/%s" % (version, BLOCKS[bi].replace(' ', '+') or 'none'), "fn": "h_simple_block", "pre": "pre_sb", "args": [["st", "int"]],
                        "config": {"version": version, "sb": bi}, "timeout": 200, "twin_timeout": 30,
                        "bound": "xsi:type from %r on an element of type xs:decimal" % ([t for t, c in SB_TYPES],)})
    out.append({"name": "alternatives/1.1", "fn": "h_alt", "pre": "pre_idx", "args": [["kk", "int"], ["ct", "int"], ["at", "int"]],
                "config": {"version": "1.1"}, "timeout": 300, "twin_timeout": 30, "bound": "4 attribute values x 4 contents x 5 xsi:type choices"})
    return out
