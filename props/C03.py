"""C03 - attribute sets are validated per declared uses, value constraints and wildcards.

Engine A (CrossHair), P1: the attribute map of one element is assembled from symbolic presence flags over a name pool
(no namespace / target namespace / declared foreign / unknown namespaces) and symbolic value indices, then validated
and decoded by the real public API; the verdict and the decoded attribute data are compared with a set-based reference.
Symbolic kind: finite-choice (presence flags and value indices select the attribute map).
"""
import xml.etree.ElementTree as ET
from decimal import Decimal

import xmlschema

from engine.sym import pick

ID = "C03"
CFG = {"wild": "none", "version": "1.0", "maxp": 3}
TNS = "tns"

WILD = {
    "none": "",
    "other-lax": '<xs:anyAttribute namespace="##other" processContents="lax"/>',
    "other-strict": '<xs:anyAttribute namespace="##other" processContents="strict"/>',
    "any-strict": '<xs:anyAttribute namespace="##any" processContents="strict"/>',
    "local-skip": '<xs:anyAttribute namespace="##local" processContents="skip"/>',
    "tns-lax": '<xs:anyAttribute namespace="##targetNamespace" processContents="lax"/>',
}


def _xsd(wild):
    # attributeFormDefault="qualified" with an explicit form="unqualified" on every local attribute that is meant to be
    # unqualified: same meaning as without the default, but the explicit form has to win over the schema default
    return """<xs:schema xmlns:xs="http://www.w3.org/2001/XMLSchema" targetNamespace="tns" xmlns:t="tns" xmlns:f="ext" attributeFormDefault="qualified">
  <xs:import namespace="ext"/>
  <xs:attribute name="glob" type="xs:int"/>
  <xs:attribute name="gfix" type="xs:int" fixed="3"/>
  <xs:attributeGroup name="ag"><xs:attribute name="grp" type="xs:boolean" form="unqualified"/></xs:attributeGroup>
  <xs:element name="e"><xs:complexType>
    <xs:attribute name="req" type="xs:int" use="required" form="unqualified"/>
    <xs:attribute name="opt" type="xs:int" form="unqualified"/>
    <xs:attribute name="fix" type="xs:decimal" fixed="1.0" form="unqualified"/>
    <xs:attribute name="def" type="xs:int" default="7" form="unqualified"/>
    <xs:attribute name="fe" type="xs:string" fixed="" form="unqualified"/>
    <xs:attribute ref="t:glob"/>
    <xs:attribute name="qual" type="xs:int"/>
    <xs:attributeGroup ref="t:ag"/>
    %s
  </xs:complexType></xs:element></xs:schema>""" % WILD[wild]


# candidate attributes: (expanded name, list of lexical values, per value: valid for its declaration?)
POOL = [
    ("req", ["1", "x"]),
    ("opt", ["1", "x"]),
    ("fix", ["1.0", "1", "01.00", "2"]),
    ("def", ["5"]),
    ("{tns}glob", ["2", "y"]),
    ("{tns}qual", ["4"]),
    ("grp", ["true", "2"]),
    ("qual", ["4"]),                    # unqualified spelling of a qualified local attribute: not declared
    ("glob", ["2"]),                    # unqualified spelling of the global attribute: not declared
    ("{ext}x", ["z"]),                  # foreign namespace, no declaration available
    ("und", ["z"]),                     # undeclared, no namespace
    ("{tns}gfix", ["3", "4"]),          # global attribute of the target namespace, not referenced by the type
    ("fe", ["", "x"]),                  # fixed to the empty string
]
DECL = {"fe": "fixed-empty", "req": "int", "opt": "int", "fix": "fixed-decimal-1", "def": "int", "{tns}glob": "int", "{tns}qual": "int", "grp": "boolean"}
GLOBAL_ATTRS = {"{tns}glob": "int", "{tns}gfix": "fixed-int-3"}
_S = {}


def configure(cfg):
    CFG.update(cfg)
    if CFG.get("w"):
        key = (CFG["version"], "compose", tuple(CFG["w"]))
        if key not in _S:
            cls = xmlschema.XMLSchema10 if CFG["version"] == "1.0" else xmlschema.XMLSchema11
            _S[key] = cls(_compose_xsd(*CFG["w"]))
        return
    key = (CFG["version"], CFG["wild"])
    if key not in _S:
        cls = xmlschema.XMLSchema10 if CFG["version"] == "1.0" else xmlschema.XMLSchema11
        _S[key] = cls(_xsd(CFG["wild"]))


def _value_ok(kind, text):
    if kind == "int":
        return text.lstrip('+-').isdigit() and text.isascii()
    if kind == "boolean":
        return text in ("true", "false", "1", "0")
    if kind == "fixed-decimal-1":
        try:
            return Decimal(text) == Decimal("1.0")
        except Exception:
            return False
    if kind == "fixed-empty":
        return text == ""
    if kind == "fixed-int-3":
        return text.isdigit() and int(text) == 3
    return True


def _wild_allows(ns):
    w = CFG["wild"]
    if w == "none":
        return False
    if w.startswith("other"):
        return ns != "" and ns != TNS
    if w.startswith("any"):
        return True
    if w.startswith("local"):
        return ns == ""
    if w.startswith("tns"):
        return ns == TNS
    raise ValueError(w)


def _ns(name):
    return name[1:].split('}')[0] if name[0] == '{' else ''


def reference_valid(attrs):
    """set-based reference of the statement (XSD Structures 3.4.4 Element Locally Valid (Complex Type), clauses 3-4)"""
    if "req" not in attrs:
        return False
    for name, text in attrs.items():
        if name in DECL:
            if not _value_ok(DECL[name], text):
                return False
            continue
        if not _wild_allows(_ns(name)):
            return False
        mode = CFG["wild"].split('-')[1]
        if mode == "skip":
            continue
        if name in GLOBAL_ATTRS:
            if not _value_ok(GLOBAL_ATTRS[name], text):
                return False
        elif mode == "strict":
            return False            # strict: a declaration must be available
    return True


def pre_attrs(fn, **kw):
    n = 0
    for k in range(len(POOL)):
        if kw.get("p%d" % k):
            n += 1
    if n > CFG["maxp"]:
        return False
    for k, (name, vals) in enumerate(POOL):
        v = kw.get("v%d" % k)
        if v is not None and not (0 <= v < len(vals)):
            return False
    return True


def _attrs(kw):
    attrs = {}
    for k, (name, vals) in enumerate(POOL):
        if kw.get("p%d" % k):
            v = kw.get("v%d" % k)
            attrs[name] = vals[pick(v, len(vals))] if v is not None else vals[0]
    return attrs


def h_verdict(**kw) -> bool:
    schema = _S[(CFG["version"], CFG["wild"])]
    attrs = _attrs(kw)
    elem = ET.Element('{tns}e', attrs)
    errors = list(schema.iter_errors(elem))
    return (not errors) == reference_valid(attrs)


def h_filling(**kw) -> bool:
    """decoded data: fixed always reported, default exactly when use_defaults, other absent names only with fill_missing"""
    schema = _S[(CFG["version"], CFG["wild"])]
    attrs = {"req": "1"}
    if kw["p_opt"]:
        attrs["opt"] = "2"
    if kw["p_fix"]:
        attrs["fix"] = "1"
    if kw["p_def"]:
        attrs["def"] = "5"
    if kw["p_grp"]:
        attrs["grp"] = "true"
    use_defaults, fill_missing = bool(kw["use_defaults"]), bool(kw["fill_missing"])
    elem = ET.Element('{tns}e', attrs)
    data, errors = schema.decode(elem, validation='lax', use_defaults=use_defaults, fill_missing=fill_missing)
    if errors:
        return False
    data = data or {}
    got = {k[1:]: v for k, v in data.items() if k.startswith('@') and not k.startswith('@xmlns')}
    want = {"req": 1, "fe": ""}          # a fixed value is reported even when the attribute is absent, also the empty string
    want["fix"] = Decimal("1") if kw["p_fix"] else Decimal("1.0")
    if kw["p_opt"]:
        want["opt"] = 2
    if kw["p_def"]:
        want["def"] = 5
    elif use_defaults:
        want["def"] = 7
    if kw["p_grp"]:
        want["grp"] = True
    if fill_missing:
        for name in ("opt", "def", "{tns}glob", "{tns}qual", "grp"):
            want.setdefault(name, None)
    return got == want


# ---------------------------------------------------------------- composed attribute wildcards
# The complete wildcard of a type is composed while the schema is built: the intersection of the type's own wildcard with
# the wildcards of the referenced attribute groups, united with the base type's wildcard for an extension (Structures
# 3.4.2 "complete wildcard").  The elements u1..u3 use each operand alone: composing must not alter the operands.
W_POOL = ["##any", "##other", "##local", "##targetNamespace urn:a", "urn:a urn:b", "##local urn:a", "urn:b"]
C_ELEMS = ["c1", "c2", "c3", "c4", "u1", "u2", "u3"]
C_NS = ["", TNS, "urn:a", "urn:b", "urn:z"]


def _compose_xsd(w1, w2, w3):
    any_ = '<xs:anyAttribute namespace="%s" processContents="skip"/>'
    return """<xs:schema xmlns:xs="http://www.w3.org/2001/XMLSchema" targetNamespace="tns" xmlns:t="tns">
  <xs:attributeGroup name="g1">%s</xs:attributeGroup>
  <xs:attributeGroup name="g2">%s</xs:attributeGroup>
  <xs:complexType name="B">%s</xs:complexType>
  <xs:element name="c1"><xs:complexType><xs:attributeGroup ref="t:g1"/><xs:attributeGroup ref="t:g2"/></xs:complexType></xs:element>
  <xs:element name="c2"><xs:complexType><xs:attributeGroup ref="t:g1"/>%s</xs:complexType></xs:element>
  <xs:element name="c3"><xs:complexType><xs:complexContent><xs:extension base="t:B"><xs:attributeGroup ref="t:g1"/></xs:extension></xs:complexContent></xs:complexType></xs:element>
  <xs:element name="c4"><xs:complexType><xs:attributeGroup ref="t:g2"/><xs:attributeGroup ref="t:g1"/></xs:complexType></xs:element>
  <xs:element name="u1"><xs:complexType><xs:attributeGroup ref="t:g1"/></xs:complexType></xs:element>
  <xs:element name="u2"><xs:complexType><xs:attributeGroup ref="t:g2"/></xs:complexType></xs:element>
  <xs:element name="u3" type="t:B"/>
</xs:schema>""" % (any_ % w1, any_ % w2, any_ % w3, any_ % w2)


def _w_allows(w, ns):
    """set denotation of a namespace constraint (Structures 3.10.4 Wildcard allows Namespace Name)"""
    if w == "##any":
        return True
    if w == "##other":
        return ns != "" and ns != TNS
    members = {"": None}
    allowed = set()
    for tok in w.split():
        allowed.add("" if tok == "##local" else TNS if tok == "##targetNamespace" else tok)
    return ns in allowed


def compose_reference(elem, ns):
    w1, w2, w3 = CFG["w"]
    a1, a2, a3 = _w_allows(w1, ns), _w_allows(w2, ns), _w_allows(w3, ns)
    return {"c1": a1 and a2, "c2": a1 and a2, "c3": a1 or a3, "c4": a1 and a2, "u1": a1, "u2": a2, "u3": a3}[elem]


def pre_compose(fn, **kw):
    return 0 <= kw["e"] < len(C_ELEMS) and 0 <= kw["ns"] < len(C_NS)


def h_compose(**kw) -> bool:
    schema = _S[(CFG["version"], "compose", tuple(CFG["w"]))]
    elem = C_ELEMS[pick(kw["e"], len(C_ELEMS))]
    ns = C_NS[pick(kw["ns"], len(C_NS))]
    node = ET.Element('{tns}%s' % elem, {('{%s}x' % ns) if ns else 'x': 'v'})
    errors = list(schema.iter_errors(node))
    return (not errors) == compose_reference(elem, ns)


def explain(fn, args):
    if fn == "h_compose":
        schema = _S[(CFG["version"], "compose", tuple(CFG["w"]))]
        elem, ns = C_ELEMS[args["e"]], C_NS[args["ns"]]
        node = ET.Element('{tns}%s' % elem, {('{%s}x' % ns) if ns else 'x': 'v'})
        return "XSD %s wildcards g1=%r g2=%r base=%r: element %s with an attribute in namespace %r: errors %r; reference says %s" % (
            CFG["version"], CFG["w"][0], CFG["w"][1], CFG["w"][2], elem, ns, [e.reason for e in schema.iter_errors(node)][:1],
            "admitted" if compose_reference(elem, ns) else "not admitted")
    schema = _S[(CFG["version"], CFG["wild"])]
    if fn == "h_verdict":
        attrs = _attrs(args)
        errs = [e.reason for e in schema.iter_errors(ET.Element('{tns}e', attrs))]
        return "XSD %s wildcard=%s attributes %r: validator errors %r; reference says %s" % (
            CFG["version"], CFG["wild"], attrs, errs[:2], "valid" if reference_valid(attrs) else "invalid")
    return "filling args %r" % (args,)


META = {
    "level": "model_checking",
    "symbolic_kind": "finite-choice (presence flags over a name pool, value indices, option flags)",
    "functions": [
        "xmlschema.validators.attributes.XsdAttributeGroup.raw_decode",
        "xmlschema.validators.attributes.XsdAttributeGroup.iter_required",
        "xmlschema.validators.attributes.XsdAttributeGroup.iter_value_constraints",
        "xmlschema.validators.attributes.XsdAttribute.raw_decode",
        "xmlschema.validators.wildcards.XsdAnyAttribute.raw_decode",
        "xmlschema.validators.wildcards.XsdWildcard.is_namespace_allowed",
    ],
    "bounds": {},
    "outside": "attribute types beyond int/boolean/decimal (C02), xsi:* attributes (C07), more than 3 (quick) / 4 (thorough) attributes present",
    "stubs": [],
    "assumptions": [],
}


def obligations(tier, seed):
    quick = tier == "quick"
    out = []
    wilds = ("none", "other-lax", "any-strict", "local-skip") if quick else tuple(WILD)
    for version in ("1.0", "1.1"):
        for w in wilds:
            args = [["p%d" % k, "bool"] for k in range(len(POOL))] + [["v%d" % k, "int"] for k, (n, vals) in enumerate(POOL) if len(vals) > 1]
            out.append({"name": "verdict/%s/%s" % (version, w), "fn": "h_verdict", "pre": "pre_attrs", "args": args,
                        "config": {"wild": w, "version": version, "maxp": 2 if quick else 4}, "timeout": 400 if quick else 3000, "twin_timeout": 30,
                        "bound": "every subset of <= %d of %d candidate attributes, every listed lexical value" % (2 if quick else 4, len(POOL))})
        for w in (("none", "other-lax") if quick else wilds):
            out.append({"name": "filling/%s/%s" % (version, w), "fn": "h_filling", "pre": "pre_attrs",
                        "args": [[a, "bool"] for a in ("p_opt", "p_fix", "p_def", "p_grp", "use_defaults", "fill_missing")],
                        "config": {"wild": w, "version": version, "maxp": 9}, "timeout": 200, "twin_timeout": 30,
                        "bound": "presence of 4 optional attributes x use_defaults x fill_missing"})
        for w in compose_configs(quick):
            out.append({"name": "compose/%s/%s" % (version, "+".join(x.replace(' ', ',') for x in w)), "fn": "h_compose", "pre": "pre_compose",
                        "args": [["e", "int"], ["ns", "int"]], "config": {"version": version, "w": list(w), "wild": "none"},
                        "timeout": 200, "twin_timeout": 30,
                        "bound": "elements %r x one attribute in a namespace from %r" % (C_ELEMS, C_NS)})
    return out


def compose_configs(quick):
    """(g1, g2, base) namespace constraints whose intersection and union are expressible in both XSD versions"""
    full = [(a, b, c) for a in W_POOL for b in W_POOL for c in W_POOL if _expressible(a, b, c)]
    if not quick:
        return full
    pick_ = [("##other", "##local urn:a", "urn:b"), ("##local urn:a", "##other", "##local"), ("##any", "urn:a urn:b", "##other"),
             ("urn:a urn:b", "##any", "urn:b"), ("##targetNamespace urn:a", "urn:a urn:b", "##local"), ("urn:b", "##local urn:a", "##any")]
    return [w for w in pick_ if w in full]


def _expressible(a, b, c):
    # XSD 1.0 cannot express not(tns) u {absent,...} (union clause 5.3 / 6) nor the union of ##other with a set holding tns only
    def is_set(w):
        return not w.startswith("##any") and w != "##other"
    for x, y in ((a, c),):                     # the union operands (g1 with the base wildcard)
        if "##other" in (x, y):
            other = y if x == "##other" else x
            if is_set(other):
                toks = other.split()
                if ("##local" in toks) != ("##targetNamespace" in toks):
                    return False
    return True
