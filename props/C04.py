"""C04 - all validation entry points and modes agree on one verdict.

Part 1 (Engine A, P1): small documents assembled from a child-kind pool and a text pool by symbolic indices (finite
choice: a free symbolic text does not reach "Confirmed" - it is hashed by identity counters and C-level element
objects and the engine then enumerates realisations) are pushed through every entry point of the real API.
Part 2 (Engine B, z3): the exit status of the validate command: the expression handed to sys.exit() is translated from
the AST of the live cli.validate(), the error counts per file are integer variables, the OS contract is
status = code mod 256; the model is replayed by running the real command on generated files.
"""
import ast
import inspect
import os
import subprocess
import sys
import tempfile
import xml.etree.ElementTree as ET

import xmlschema
from xmlschema import XMLResource
from xmlschema.validators.exceptions import XMLSchemaValidationError

from engine.sym import pick

ID = "C04"
CFG = {"nmax": 2, "sym_text": False, "tmax": 2, "alpha": "1 x", "version": "1.0"}

_XSD = """<xs:schema xmlns:xs="http://www.w3.org/2001/XMLSchema">
 <xs:element name="r"><xs:complexType><xs:sequence>
   <xs:element name="a" type="xs:int" minOccurs="0" maxOccurs="2"/>
   <xs:element name="b" type="xs:boolean" minOccurs="0"/>
   <xs:element name="k" minOccurs="0" maxOccurs="3"><xs:complexType>
       <xs:attribute name="id" type="xs:ID"/><xs:attribute name="ref" type="xs:IDREF"/>
       <xs:attribute name="dref" type="xs:IDREF" default="x"/></xs:complexType></xs:element>  <!-- an absent attribute whose default is a reference -->
   <xs:element name="f" fixed="x" minOccurs="0" maxOccurs="2"/>  <!-- untyped (mixed) element with a fixed value -->
  </xs:sequence><xs:attribute name="q" type="xs:int"%s/><xs:anyAttribute namespace="##local" processContents="strict"/></xs:complexType>
  <xs:unique name="u"><xs:selector xpath="a"/><xs:field xpath="."/></xs:unique>
 </xs:element></xs:schema>"""
SCHEMAS = {}

KINDS = ["a=1", "a=2", "a=x", "b= true ", "k id=x", "k ref=x", "k ref=y", "z", "a=T", "f= ", "f=x", "f=y"]
SYM = 8          # index of the kind whose text comes from TEXTS
#         valid  valid  bad    valid     id        ref ok     dangling  undeclared  symbolic text


def configure(cfg):
    CFG.update(cfg)
    for v, cls in (("1.0", xmlschema.XMLSchema10), ("1.1", xmlschema.XMLSchema11)):
        if v not in SCHEMAS:
            # XSD 1.1: the root attribute is inheritable (the validation context is copied for the subtree when it is present)
            SCHEMAS[v] = cls(_XSD % (' inheritable="true"' if v == "1.1" else ''))


configure({})


def pre_doc(fn, **kw):
    if not (0 <= kw["n"] <= CFG["nmax"]):
        return False
    for k in range(CFG["nmax"]):
        if not (0 <= kw["c%d" % k] < len(KINDS)):
            return False
        if kw["c%d" % k] == SYM and not CFG["sym_text"]:
            return False
        if CFG.get("allowed") and kw["c%d" % k] not in CFG["allowed"][k]:
            return False
    if "t" in kw and not (0 <= kw["t"] < len(TEXTS)):
        return False
    if "q" in kw and not (0 <= kw["q"] < len(QS)):
        return False
    if "g" in kw and not (0 <= kw["g"] < len(ROOTS)):
        return False
    return True


TEXTS = ['1', ' 1 ', '01', '+1', 'x', '', '1 1', '2147483648', '1.0']
ROOTS = ['r', '{urn:not-loaded}r', 'undeclared']          # the declared root, the same local name in a namespace the schema does not know, an undeclared name
QS = [None, ('q', '1'), ('q', 'x'), ('zz', '1')]          # root attribute: absent, q valid, q invalid, one admitted by the strict wildcard but not declared


def _build(kw):
    n = pick(kw["n"], CFG["nmax"] + 1)
    text = TEXTS[pick(kw["t"], len(TEXTS))] if "t" in kw else ""
    root = ET.Element(ROOTS[pick(kw["g"], len(ROOTS))] if "g" in kw else 'r')
    if "q" in kw:
        q = QS[pick(kw["q"], len(QS))]
        if q is not None:
            root.set(q[0], q[1])
    for k in range(n):
        kind = KINDS[pick(kw["c%d" % k], len(KINDS))]
        if kind == 'z':
            ET.SubElement(root, 'z')
        elif kind.startswith('k '):
            name, val = kind[2:].split('=')
            ET.SubElement(root, 'k', {name: val})
        else:
            tag, val = kind.split('=')
            e = ET.SubElement(root, tag)
            e.text = text if val == 'T' else val
    return root


def _sig(err):
    return (err.reason, err.path)


def h_agree(**kw) -> bool:
    schema = SCHEMAS[CFG["version"]]
    root = _build(kw)
    errs = [_sig(e) for e in schema.iter_errors(root)]
    valid = schema.is_valid(root)
    if valid != (not errs):
        return False
    # validate(): raises exactly when invalid, and raises the first collected error
    try:
        schema.validate(root)
        v_ok = True
    except XMLSchemaValidationError as e:
        v_ok = False
        if not errs or _sig(e) != errs[0]:
            return False
    if v_ok != valid:
        return False
    # lax decode: same error list; strict decode: raises iff invalid, the first lax error
    data, lax_errs = schema.decode(root, validation='lax')
    lax = [_sig(e) for e in lax_errs]
    if lax != errs:
        return False
    try:
        sdata = schema.decode(root, validation='strict')
        s_ok = True
    except XMLSchemaValidationError as e:
        s_ok = False
        if not lax or _sig(e) != lax[0]:
            return False
    if s_ok != valid:
        return False
    if valid and sdata != data:
        return False
    # package-level functions and other source kinds (tree, resource)
    if xmlschema.is_valid(root, schema) != valid:
        return False
    if [_sig(e) for e in xmlschema.iter_errors(root, schema)] != errs:
        return False
    if schema.is_valid(ET.ElementTree(root)) != valid:
        return False
    res = XMLResource(root)
    if [_sig(e) for e in schema.iter_errors(res)] != errs:
        return False
    if valid and xmlschema.to_dict(res, schema) != data:
        return False
    # skip mode never raises and, for a valid document, gives the same data
    kdata = schema.decode(root, validation='skip')
    if valid and kdata != data:
        return False
    return True


def explain(fn, args):
    if fn != "h_agree":
        return ""
    schema = SCHEMAS[CFG["version"]]
    root = _build(args)
    doc = ET.tostring(root).decode()
    out = "doc %s: is_valid=%s iter_errors=%d" % (doc, schema.is_valid(root), len(list(schema.iter_errors(root))))
    try:
        d, e = schema.decode(root, validation='lax')
        out += " lax_errors=%d" % len(e)
    except Exception as ex:
        out += " lax raised %r" % ex
    try:
        schema.decode(root, validation='strict')
        out += " strict=ok"
    except Exception as ex:
        out += " strict raised %s" % type(ex).__name__
    return out


# ---------------------------------------------------------------- Part 2: CLI exit status (Engine B)

def _exit_model():
    """(accumulator name, list of ('const', c) | ('len',) contributions, exit expression AST) from the live source"""
    from xmlschema import cli
    src = inspect.getsource(cli.validate)
    fn = ast.parse(src).body[0]
    exits = [n for n in ast.walk(fn) if isinstance(n, ast.Call) and isinstance(n.func, ast.Attribute) and n.func.attr == 'exit'
             and isinstance(n.func.value, ast.Name) and n.func.value.id == 'sys']
    if len(exits) != 1 or len(exits[0].args) != 1:
        raise engine_smt.Unsupported("expected exactly one sys.exit(<expr>) in cli.validate")
    expr = exits[0].args[0]
    names = sorted({n.id for n in ast.walk(expr) if isinstance(n, ast.Name)} - {'min', 'max', 'bool', 'int', 'abs'})
    if len(names) != 1:
        raise engine_smt.Unsupported("exit expression over %s" % names)
    acc = names[0]
    contribs = []
    for n in ast.walk(fn):
        if isinstance(n, ast.AugAssign) and isinstance(n.target, ast.Name) and n.target.id == acc:
            if not isinstance(n.op, ast.Add):
                raise engine_smt.Unsupported("accumulator updated with %s" % type(n.op).__name__)
            v = n.value
            has_len = any(isinstance(c, ast.Call) and isinstance(c.func, ast.Name) and c.func.id == 'len' for c in ast.walk(v))
            contribs.append(('len' if has_len else 'const', v))
        elif isinstance(n, ast.Assign) and any(isinstance(t, ast.Name) and t.id == acc for t in n.targets):
            if not (isinstance(n.value, ast.Constant) and n.value.value == 0):
                raise engine_smt.Unsupported("accumulator initialised with %s" % ast.dump(n.value))
    if sorted(c[0] for c in contribs) != ['const', 'len']:
        raise engine_smt.Unsupported("unexpected accumulator updates %s" % contribs)
    return acc, contribs, expr


from engine import smt as engine_smt  # noqa: E402


def smt_cli_exit(config):
    import z3
    k = config.get("files", 2)
    bound = config.get("max_errors", 1 << 16)
    try:
        acc, contribs, expr = _exit_model()
    except engine_smt.Unsupported as e:
        return {"status": "unknown", "error": "translator refused: %s" % e, "queries": 0}
    const_ast = [c[1] for c in contribs if c[0] == 'const'][0]
    len_ast = [c[1] for c in contribs if c[0] == 'len'][0]

    class _Len(ast.NodeTransformer):          # len(<anything>) -> the per-file error count
        def visit_Call(self, node):
            if isinstance(node.func, ast.Name) and node.func.id == 'len':
                return ast.copy_location(ast.Name('__n', ast.Load()), node)
            return self.generic_visit(node)
    len_ast = _Len().visit(ast.parse(ast.unparse(len_ast), mode='eval').body)
    ns = [z3.Int('n%d' % i) for i in range(k)]
    xs = [z3.Bool('x%d' % i) for i in range(k)]        # file i raises a caught library/URL error instead
    try:
        terms = []
        for i in range(k):
            exc = engine_smt.as_int(engine_smt.expr_to_z3(const_ast, {}))
            cnt = engine_smt.as_int(engine_smt.expr_to_z3(len_ast, {'__n': ns[i]}))
            terms.append(z3.If(xs[i], exc, z3.If(ns[i] == 0, z3.IntVal(0), cnt)))
        tot = z3.Sum(terms)
        code = engine_smt.as_int(engine_smt.expr_to_z3(expr, {acc: tot}))
    except engine_smt.Unsupported as e:
        return {"status": "unknown", "error": "translator refused: %s" % e, "queries": 0}
    status = code % 256          # POSIX exit(3): only the low 8 bits reach the parent
    clean = z3.And(*[z3.And(z3.Not(xs[i]), ns[i] == 0) for i in range(k)])
    ses = engine_smt.Session()
    dom = [z3.And(n >= 0, n <= bound) for n in ns]
    r0, _ = ses.check(*dom)          # vacuity: the assumptions alone are satisfiable
    if r0 != 'sat':
        return {"status": "error", "error": "vacuous assumptions", "queries": ses.queries}
    from engine.known import open_regions
    extra = [z3.Not(globals()[p](ns, xs)) for p in open_regions(__name__, "smt_cli_exit")]
    r, m = ses.check(*dom, *extra, (status == 0) != clean)
    out = {"queries": ses.queries, "solver_s": round(ses.seconds, 4), "functions": ["xmlschema.cli.validate"],
           "samples": [{"exit_expression": ast.unparse(expr), "accumulator": acc, "contributions": [(c[0], ast.unparse(c[1])) for c in contribs], "files": k, "max_errors": bound}]}
    if r == 'unsat':
        out["status"] = "unsat"
    elif r == 'sat':
        nv = [m.eval(n, model_completion=True).as_long() for n in ns]
        xv = [bool(z3.is_true(m.eval(x, model_completion=True))) for x in xs]
        out["status"] = "sat"
        out["cex"] = [{"args": {"__kw__": {"ns": nv, "xs": xv}}, "replay_fn": "replay_cli",
                       "message": "sys.exit(%s) with per-file error counts %s / exceptions %s" % (ast.unparse(expr), nv, xv)}]
    else:
        out["status"] = "unknown"
    return out


def replay_cli(ns, xs) -> bool:
    """run the real validate command on generated files: True iff (exit status == 0) <=> (no error at all)"""
    d = tempfile.mkdtemp(prefix="c04cli")
    try:
        xsd = os.path.join(d, "s.xsd")
        open(xsd, "w").write('<xs:schema xmlns:xs="http://www.w3.org/2001/XMLSchema"><xs:element name="r"><xs:complexType><xs:sequence>'
                             '<xs:element name="i" type="xs:int" minOccurs="0" maxOccurs="unbounded"/></xs:sequence></xs:complexType>'
                             '</xs:element></xs:schema>')
        files = []
        for i, (n, x) in enumerate(zip(ns, xs)):
            p = os.path.join(d, "f%d.xml" % i)
            if x:
                p = os.path.join(d, "missing%d.xml" % i)      # not created: the command catches the error and counts 1
            else:
                open(p, "w").write("<r>" + "<i>x</i>" * n + "</r>")
            files.append(p)
        code = "import sys; from xmlschema.cli import validate; sys.argv=['xmlschema-validate','--schema',%r]+%r; validate()" % (xsd, files)
        env = dict(os.environ)
        env["PYTHONPATH"] = os.pathsep.join(p for p in sys.path if p)
        rc = subprocess.run([sys.executable, "-c", code], capture_output=True, env=env).returncode
        clean = all(n == 0 and not x for n, x in zip(ns, xs))
        return (rc == 0) == clean
    finally:
        import shutil
        shutil.rmtree(d, ignore_errors=True)


META = {
    "level": "model_checking",
    "symbolic_kind": "finite-choice document structure + string (one text), integer (CLI error counts)",
    "functions": [
        "xmlschema.validators.schemas.XMLSchemaBase.is_valid", "xmlschema.validators.schemas.XMLSchemaBase.iter_errors",
        "xmlschema.validators.schemas.XMLSchemaBase.validate", "xmlschema.validators.schemas.XMLSchemaBase.decode",
        "xmlschema.validators.schemas.XMLSchemaBase.iter_decode", "xmlschema.validators.schemas.XMLSchemaBase._validate_references",
        "xmlschema.documents.is_valid", "xmlschema.documents.iter_errors", "xmlschema.documents.to_dict",
        "xmlschema.validators.validation.ValidationContext.validation_error", "xmlschema.cli.validate",
    ],
    "bounds": {},
    "outside": "source kinds that need real I/O or expat (path, URL, bytes, open file): compared only in the CLI replay; documents larger than the bound",
    "stubs": ["OS contract for the CLI: exit status = code mod 256 (POSIX exit(3))"],
    "assumptions": [],
}


def obligations(tier, seed):
    quick = tier == "quick"
    out = []
    to = 400 if quick else 2400
    for version in ("1.0", "1.1"):
        nmax = 2 if quick else 3
        out.append({"name": "agree/%s/structure-n%d" % (version, nmax), "fn": "h_agree", "pre": "pre_doc",
                    "args": [["n", "int"]] + [["c%d" % k, "int"] for k in range(nmax)],
                    "config": {"nmax": nmax, "sym_text": False, "version": version, "allowed": [list(range(8))] * nmax}, "timeout": to, "twin_timeout": 40,
                    "bound": "root + <= %d children from %r" % (nmax, KINDS[:8])})
        out.append({"name": "agree/%s/symbolic-text" % version, "fn": "h_agree", "pre": "pre_doc",
                    "args": [["n", "int"], ["c0", "int"], ["c1", "int"], ["t", "int"]],
                    "config": {"nmax": 2, "sym_text": True, "tmax": 2, "alpha": "1 x", "version": version,
                               "allowed": [[8], [0, 6, 8]] if quick else [[8, 0], [0, 2, 6, 7, 8]]}, "timeout": to, "twin_timeout": 40,
                    "bound": "root + <= 2 children: <a>T</a> then one of <a>1</a>, <k ref=y/>, <a>T</a>; T from %r (finite choice)" % (TEXTS,)})
        out.append({"name": "agree/%s/root-attribute" % version, "fn": "h_agree", "pre": "pre_doc",
                    "args": [["n", "int"], ["c0", "int"], ["c1", "int"], ["q", "int"]],
                    "config": {"nmax": 2, "sym_text": False, "version": version,
                               "allowed": [[0, 2], [2, 6]] if quick else None}, "timeout": to, "twin_timeout": 40,
                    "bound": "root attribute q from %r (inheritable in XSD 1.1) + <= 2 children" % (QS,)})
        out.append({"name": "agree/%s/fixed-mixed" % version, "fn": "h_agree", "pre": "pre_doc",
                    "args": [["n", "int"], ["c0", "int"], ["c1", "int"]],
                    "config": {"nmax": 2, "sym_text": False, "version": version, "allowed": [[0, 9, 10, 11], [9, 10, 11]]}, "timeout": to, "twin_timeout": 40,
                    "bound": "<= 2 children from an untyped element with a fixed value holding blank / equal / different text, after an optional <a>"})
        out.append({"name": "agree/%s/root-name" % version, "fn": "h_agree", "pre": "pre_doc",
                    "args": [["n", "int"], ["c0", "int"], ["c1", "int"], ["g", "int"]],
                    "config": {"nmax": 2, "sym_text": False, "version": version, "allowed": [[0, 2], [0]]}, "timeout": to, "twin_timeout": 40,
                    "bound": "root element name from %r + <= 2 children" % (ROOTS,)})
    for k in (1, 2, 3):
        out.append({"name": "cli-exit/%d-files" % k, "engine": "smt", "fn": "smt_cli_exit", "config": {"files": k, "max_errors": 1 << 16},
                    "timeout": 120, "bound": "%d files, 0..65536 errors each or a caught exception" % k})
    return out
