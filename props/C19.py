"""C19 - errors point at the offending node and a single fault is always reported there.

Engine A (CrossHair), finite-choice:
  * path kernel: etree_getpath(elem, root, namespaces, relative=False, add_position=True) on a tree whose shape (parent
    vector), tags (pool over two namespaces and no namespace) and target node are chosen by symbolic indices; evaluating
    the returned path with a small reference evaluator (child steps, positional predicate among same-named siblings,
    prefix / default-namespace resolution) must select exactly the target.
  * localisation: a valid template document is damaged at one node (node index x fault kind by symbolic indices); the
    real iter_errors() must report the document invalid, every error's path must select exactly the error's element,
    at least one error sits at the damaged node or its parent, none outside the node's ancestor chain and subtree.
"""
import copy
import xml.etree.ElementTree as ET

import xmlschema
from xmlschema.utils.etree import etree_getpath

from engine.sym import pick

ID = "C19"
U1, U2 = "urn:u1", "urn:u2"
CFG = {"nsmap": 0, "nodes": 4, "docvariant": "prefixed", "ntags": 4}
TAGS = ['{%s}a' % U1, '{%s}a' % U2, 'a', '{%s}b' % U1]          # quick tier uses the first three
NSMAPS = [{'p': U1, 'q': U2}, {'': U1, 'q': U2}, {'p': U1, 'p2': U1, 'q': U2}, {}]


def configure(cfg):
    CFG.update(cfg)
    _doc_schema()


# ---------------------------------------------------------------- reference path evaluator

def select(root, path, namespaces):
    """absolute path /step/step...; step = name | name[n]; name = prefixed | {uri}local | local (default namespace = namespaces[''])"""
    if not path.startswith('/'):
        return None
    steps = _split(path[1:])

    def expand(name):
        if name.startswith('{'):
            return name
        if ':' in name:
            p, local = name.split(':', 1)
            if p not in namespaces:
                return None
            return '{%s}%s' % (namespaces[p], local)
        d = namespaces.get('') if namespaces else None
        return '{%s}%s' % (d, name) if d else name

    def parse(step):
        if step.endswith(']') and '[' in step:
            name, pos = step[:-1].rsplit('[', 1)
            return expand(name), int(pos)
        return expand(step), None

    name, pos = parse(steps[0])
    if name != root.tag or (pos not in (None, 1)):
        return []
    cur = [root]
    for st in steps[1:]:
        name, pos = parse(st)
        nxt = []
        for node in cur:
            same = [c for c in node if c.tag == name]
            if pos is None:
                nxt.extend(same)
            elif 1 <= pos <= len(same):
                nxt.append(same[pos - 1])
        cur = nxt
    return cur


def _split(p):
    out, depth, curr = [], 0, ''
    for ch in p:
        if ch == '{':
            depth += 1
        elif ch == '}':
            depth -= 1
        if ch == '/' and depth == 0:
            out.append(curr)
            curr = ''
        else:
            curr += ch
    out.append(curr)
    return out


# ---------------------------------------------------------------- path kernel

def region_default_ns_unqualified(**kw):
    """known finding C19-default-ns-unqualified-step: the namespace map has a default namespace and a node on the path
    from the root to the target has no namespace (its step is written unprefixed and so denotes a default-namespace name)"""
    if '' not in NSMAPS[CFG["nsmap"]]:
        return False
    n = CFG["nodes"]
    i = pick(kw["target"], n)
    while True:
        if pick(kw["t%d" % i], CFG["ntags"]) == 2:
            return True
        if i == 0:
            return False
        i = pick(kw["p%d" % i], i)


def pre_tree(fn, **kw):
    n = CFG["nodes"]
    for i in range(1, n):
        if not (0 <= kw["p%d" % i] < i):
            return False
    for i in range(n):
        if not (0 <= kw["t%d" % i] < CFG["ntags"]):
            return False
    if not (0 <= kw["target"] < n):
        return False
    from engine.known import open_regions
    for pred in open_regions(__name__, fn):
        if globals()[pred](**kw):
            return False
    return True


def h_getpath(**kw) -> bool:
    n = CFG["nodes"]
    nodes = [ET.Element(TAGS[pick(kw["t0"], CFG["ntags"])])]
    for i in range(1, n):
        parent = nodes[pick(kw["p%d" % i], i)]
        nodes.append(ET.SubElement(parent, TAGS[pick(kw["t%d" % i], CFG["ntags"])]))
    target = nodes[pick(kw["target"], n)]
    ns = NSMAPS[CFG["nsmap"]]
    path = etree_getpath(target, nodes[0], ns, relative=False, add_position=True)
    if path is None:
        return False
    sel = select(nodes[0], path, ns)
    return sel is not None and len(sel) == 1 and sel[0] is target


# ---------------------------------------------------------------- localisation

_XSD = """<xs:schema xmlns:xs="http://www.w3.org/2001/XMLSchema" targetNamespace="urn:u1" xmlns="urn:u1" elementFormDefault="qualified">
 <xs:complexType name="A"><xs:sequence><xs:element name="x" type="xs:int"/><xs:element name="y" type="xs:string" minOccurs="0"/></xs:sequence>
   <xs:attribute name="k" type="xs:int"/><xs:attribute name="ref" type="xs:IDREF"/><xs:attribute name="ver" type="xs:int"%s/></xs:complexType>
 <xs:complexType name="B"><xs:sequence><xs:element name="x" type="xs:int"/></xs:sequence><xs:attribute name="k" type="xs:int" use="required"/><xs:attribute name="ref" type="xs:IDREF"/></xs:complexType>
 <xs:element name="r"><xs:complexType><xs:sequence>
   <xs:element name="a" type="A"/><xs:element name="b" type="B" minOccurs="0" maxOccurs="unbounded"/><xs:element name="c" minOccurs="0"><xs:complexType><xs:simpleContent><xs:extension base="xs:int"><xs:attribute name="ver" type="xs:int"%s/></xs:extension></xs:simpleContent></xs:complexType></xs:element>
   <xs:any namespace="##other" processContents="strict" minOccurs="0"/>
  </xs:sequence><xs:attribute name="id" type="xs:int" use="required"/></xs:complexType></xs:element></xs:schema>"""
_DOCS = {
    "prefixed": '<p:r xmlns:p="urn:u1" id="1"><p:a k="1" ver="1"><p:x>1</p:x><p:y>s</p:y></p:a><p:b k="1"><p:x>1</p:x></p:b><p:b k="2"><p:x>2</p:x></p:b><p:c ver="1">3</p:c></p:r>',
    "default": '<r xmlns="urn:u1" id="1"><a k="1" ver="1"><x>1</x><y>s</y></a><b k="1"><x>1</x></b><b k="2"><x>2</x></b><c ver="1">3</c></r>',
}
FAULTS = ["bad-value", "remove", "extra-child", "swap-with-next", "drop-attr", "extra-attr", "bad-attr", "foreign-leaf", "dangling-idref"]
_ST = {}


def _doc_schema():
    # XSD 1.1: the attribute ver of <a> and <c> is inheritable (the subtree of <a> is validated with a copy of the context)
    v = CFG.get("xsd", "1.0")
    if v not in _ST:
        _ST[v] = xmlschema.XMLSchema11(_XSD % ((' inheritable="true"',) * 2)) if v == "1.1" else xmlschema.XMLSchema10(_XSD % ('', ''))
    return _ST[v]


def pre_fault(fn, node, fault):
    return 0 <= node < 9 and 0 <= fault < len(FAULTS)


def _parent_map(root):
    return {c: p for p in root.iter() for c in p}


def h_localise(node: int, fault: int) -> bool:
    schema = _doc_schema()
    res = xmlschema.XMLResource(_DOCS[CFG["docvariant"]])
    root = res.root
    nodes = list(root.iter())
    ni = pick(node, 9)
    fk = FAULTS[pick(fault, len(FAULTS))]
    target = nodes[ni]
    pm = _parent_map(root)
    parent = pm.get(target)
    focus = target            # the damaged node
    leaf_int = target.tag.endswith('}x') or target.tag.endswith('}c')
    if fk == "bad-value":
        if not leaf_int:
            return True       # not applicable
        target.text = 'bad'
    elif fk == "remove":
        if parent is None or target.tag.endswith('}y') or target.tag.endswith('}b') or target.tag.endswith('}c'):
            return True       # optional / repeatable nodes can be removed without making the document invalid
        parent.remove(target)
        focus = parent
    elif fk == "extra-child":
        ET.SubElement(target, '{%s}zz' % U1)
    elif fk == "swap-with-next":
        if parent is None:
            return True
        sibs = list(parent)
        i = sibs.index(target)
        if i + 1 >= len(sibs) or sibs[i + 1].tag == target.tag:
            return True
        parent.remove(sibs[i + 1])
        parent.insert(i, sibs[i + 1])
        focus = parent
    elif fk == "drop-attr":
        if not (target.tag.endswith('}b') or target.tag.endswith('}r')):
            return True       # only b/@k and r/@id are required
        target.attrib.clear()
    elif fk == "extra-attr":
        target.set('zz', '1')
    elif fk == "bad-attr":
        if not target.attrib:
            return True
        for k in list(target.attrib):
            target.set(k, 'bad')
    elif fk == "foreign-leaf":
        if parent is not None:
            return True       # the strict wildcard for other namespaces closes the root's model
        focus = ET.SubElement(target, '{%s}zz' % U2)          # admitted by the wildcard, but no declaration is available
    elif fk == "dangling-idref":
        if not (target.tag.endswith('}a') or target.tag.endswith('}b')):
            return True
        target.set('ref', 'nowhere')
    errors = list(schema.iter_errors(res))
    if not errors:
        return False
    pm = _parent_map(root)
    anc = set()
    n = focus
    while n is not None:
        anc.add(n)
        n = pm.get(n)
    allowed = anc | set(focus.iter())
    near = False
    for e in errors:
        if e.elem is None or e.path is None:
            return False
        sel = select(root, e.path, e.namespaces or {})
        if sel is None or len(sel) != 1 or sel[0] is not e.elem:
            return False
        if e.elem not in allowed:
            return False
        if e.elem is focus or e.elem is pm.get(focus) or (fk in ("remove", "swap-with-next") and e.elem in list(focus)):
            near = True
    return near


def explain(fn, args):
    if fn == "h_localise":
        return "doc variant %s, node #%d, fault %s" % (CFG["docvariant"], args["node"], FAULTS[args["fault"]])
    return "nsmap %r args %r" % (NSMAPS[CFG["nsmap"]], args)


META = {
    "level": "model_checking",
    "symbolic_kind": "finite-choice tree shapes / tags / target; finite-choice (node, fault kind)",
    "functions": [
        "xmlschema.utils.etree.etree_getpath", "xmlschema.utils.etree.etree_get_ancestors", "xmlschema.utils.qnames.get_prefixed_qname",
        "xmlschema.validators.exceptions.XMLSchemaValidationError.path", "xmlschema.validators.validation.ValidationContext.validation_error",
        "xmlschema.validators.groups.XsdGroup.raw_decode", "xmlschema.validators.elements.XsdElement.raw_decode",
    ],
    "bounds": {},
    "outside": "lazy resources, identity-constraint errors (reported on the scope element), lxml parser, documents beyond the template",
    "stubs": [],
    "assumptions": ["an unprefixed step denotes a name in the default namespace of the error's namespace map (XPath 2.0 default element namespace)"],
}


def obligations(tier, seed):
    quick = tier == "quick"
    out = []
    n = 4          # 5-node trees do not finish within the thorough budget (measured: 3000 s, inconclusive); thorough widens the tag pool instead
    for k in range(len(NSMAPS)):
        if quick and k == 3:
            continue
        args = [["p%d" % i, "int"] for i in range(1, n)] + [["t%d" % i, "int"] for i in range(n)] + [["target", "int"]]
        out.append({"name": "getpath/nsmap%d" % k, "fn": "h_getpath", "pre": "pre_tree", "args": args, "config": {"nsmap": k, "nodes": n, "ntags": 3 if quick else 4},
                    "timeout": 600 if quick else 3000, "twin_timeout": 30,
                    "bound": "trees of %d nodes (every parent vector), tags from %r, every target, namespace map %r" % (n, TAGS[:3 if quick else 4], NSMAPS[k])})
    for v in ("prefixed", "default"):
        for xsd in ("1.0", "1.1"):
            out.append({"name": "localise/%s/%s" % (v, xsd), "fn": "h_localise", "pre": "pre_fault", "args": [["node", "int"], ["fault", "int"]],
                        "config": {"docvariant": v, "xsd": xsd}, "timeout": 400, "twin_timeout": 30,
                        "bound": "9 nodes x %d fault kinds, XSD %s%s" % (len(FAULTS), xsd, " (inheritable attribute on <a>)" if xsd == "1.1" else "")})
    return out
