"""C17 - names survive prefix mapping: decoded names resolve back to the same QNames.

Engine A (CrossHair), finite-choice nesting scripts: a small document <n><a><b/></a><c/></n> whose elements (re)declare
prefixes p, q and the default namespace over two URIs at three levels, chosen by symbolic indices, is decoded by the real
API (xmlns_processing 'stacked' / 'collapsed' / 'root-only', several converters); every element key of the decoded data,
resolved with the xmlns entries the data reports for that node and its ancestors, must denote the element's expanded
name (Namespaces in XML 1.0, section 6: scoping), and re-encoding must restore the expanded names.
"""
import xml.etree.ElementTree as ET

import xmlschema
from xmlschema import converters

from engine.sym import pick

ID = "C17"
U = {"u1": "urn:u1", "u2": "urn:u2", "": ""}
CFG = {"qroot": 0, "converter": "default", "mode": "stacked", "ndecl": 5, "nan": 3, "ncn": 2, "deepc": False}

_XSD = """<xs:schema xmlns:xs="http://www.w3.org/2001/XMLSchema" targetNamespace="urn:u1">
  <xs:element name="n" type="xs:anyType"/></xs:schema>"""
SCHEMA = xmlschema.XMLSchema10(_XSD)

DECLS = [None, ("p", "u2"), ("q", "u1"), ("q", "u2"), ("", "u2"), ("", ""), ("", "u1"), ("p", "u1")]          # ("", "") is xmlns="" (the default namespace is undeclared)
QROOT = [None, ("q", "u1"), ("q", "u2")]
CONV = {"default": converters.XMLSchemaConverter, "badgerfish": converters.BadgerFishConverter, "jsonml": converters.JsonMLConverter}


def configure(cfg):
    CFG.update(cfg)


def pre_script(fn, **kw):
    nd = CFG["ndecl"]
    return 0 <= kw["ad"] < nd and 0 <= kw["bd"] < nd and 0 <= kw["an"] < CFG["nan"] and 0 <= kw["bn"] < 3 and 0 <= kw["cn"] < CFG["ncn"]


def _bindings(scope):
    """in-scope (prefix, uri) choices for naming an element, deterministic order; None = no namespace (only without default)"""
    out = [(p, u) for p, u in sorted(scope.items()) if u]
    if '' not in scope or not scope['']:
        out.append((None, None))
    return out


def _build(kw):
    """-> (xml text, list of (path of local names, expanded name))"""
    ad = DECLS[pick(kw["ad"], CFG["ndecl"])]
    bd = DECLS[pick(kw["bd"], CFG["ndecl"])]
    root_scope = {"p": U["u1"]}
    root_decl = 'xmlns:p="%s"' % U["u1"]
    qr = QROOT[CFG["qroot"]]
    if qr:
        root_scope[qr[0]] = U[qr[1]]
        root_decl += ' xmlns:%s="%s"' % (qr[0], U[qr[1]])

    def enter(scope, decl):
        s = dict(scope)
        txt = ''
        if decl:
            s[decl[0]] = U[decl[1]]
            txt = ' xmlns%s="%s"' % (':' + decl[0] if decl[0] else '', U[decl[1]])
        return s, txt

    def name(scope, idx, local):
        b = _bindings(scope)
        p, u = b[idx % len(b)]
        if p is None:
            return local, local
        return ('%s:%s' % (p, local) if p else local), '{%s}%s' % (u, local)

    a_scope, a_txt = enter(root_scope, ad)
    b_scope, b_txt = enter(a_scope, bd)
    an = pick(kw["an"], CFG["nan"])
    bn = pick(kw["bn"], 3)
    cn = pick(kw["cn"], CFG["ncn"])
    a_q, a_x = name(a_scope, an, 'a')
    b_q, b_x = name(b_scope, bn, 'b')
    c_q, c_x = name(root_scope, cn, 'c')
    if CFG["deepc"]:
        # the following sibling is one level deeper: <z><c/></z> (z without declarations, named in the root scope)
        z_q, z_x = name(root_scope, len(_bindings(root_scope)) - 1, 'z')
        xml = '<p:n %s><%s%s><%s%s>t</%s></%s><%s><%s>t</%s></%s></p:n>' % (root_decl, a_q, a_txt, b_q, b_txt, b_q, a_q, z_q, c_q, c_q, z_q)
        return xml, {"a": a_x, "b": b_x, "z": z_x, "c": c_x}
    xml = '<p:n %s><%s%s><%s%s>t</%s></%s><%s>t</%s></p:n>' % (root_decl, a_q, a_txt, b_q, b_txt, b_q, a_q, c_q, c_q)
    return xml, {"a": a_x, "b": b_x, "c": c_x}


def _resolve(key, scopes):
    """expanded name denoted by a data key under the xmlns entries reported by the data (innermost last)"""
    ns = {}
    for sc in scopes:
        ns.update(sc)
    if key.startswith('{'):
        return key
    if ':' in key:
        p, local = key.split(':', 1)
        if p not in ns:
            return None
        return '{%s}%s' % (ns[p], local) if ns[p] else local
    d = ns.get('')
    return '{%s}%s' % (d, key) if d else key


# ---------------------------------------------------------------- the mapper itself under set / delete sequences
M_OPS = [("set", "p", "urn:u1"), ("set", "p", "urn:u2"), ("set", "q", "urn:u1"), ("set", "", "urn:u1"), ("set", "", "urn:u2"),
         ("del", "p", None), ("del", "q", None), ("del", "", None)]
M_NAMES = ['{urn:u1}a', '{urn:u2}a', '{urn:u3}a', 'a']


def pre_mapper(fn, **kw):
    return all(0 <= v < len(M_OPS) for v in kw.values())


def h_mapper(**kw) -> bool:
    """after any sequence of prefix bindings and deletions, a name mapped to the prefixed form resolves, through the mapper's
    own current bindings, to the same expanded name (Namespaces in XML 1.0: a prefixed name denotes the namespace its prefix
    is bound to NOW)"""
    from xmlschema.namespaces import NamespaceMapper
    m = NamespaceMapper()
    for k in range(len(kw)):
        op, prefix, uri = M_OPS[pick(kw["o%d" % k], len(M_OPS))]
        if op == "set":
            m[prefix] = uri
        elif prefix in m:
            del m[prefix]
    bindings = dict(m.items())
    for name in M_NAMES:
        if name[0] != '{' and bindings.get(''):
            continue          # a no-namespace name under a bound default namespace has no prefixed form (cf. the C19 finding)
        mapped = m.map_qname(name)
        if mapped.startswith('{'):
            continue                                   # left in extended form: always unambiguous
        if ':' in mapped:
            prefix, local = mapped.split(':', 1)
            if bindings.get(prefix) is None:
                return False                           # a prefix that is not bound (any more)
            back = '{%s}%s' % (bindings[prefix], local)
        else:
            back = '{%s}%s' % (bindings[''], mapped) if bindings.get('') else mapped
        if back != name:
            return False
        if m.unmap_qname(mapped) != name:
            return False
    return True


def _xmlns_of(d):
    out = {}
    if isinstance(d, dict):
        for k, v in d.items():
            if k == '@xmlns':
                out[''] = v
            elif k.startswith('@xmlns:'):
                out[k[7:]] = v
    return out


def _children(d):
    if not isinstance(d, dict):
        return []
    return [(k, v) for k, v in d.items() if not k.startswith('@') and k != '$']


def _check_default(data, expected, user_ns):
    """default/BadgerFish style: nested dicts keyed by prefixed names, '@xmlns[:p]' entries on the declaring node"""
    # the root is returned without its own key: its xmlns entries are on the top dict
    scopes = [dict(user_ns), _xmlns_of(data)]
    found = {}

    def walk(d, scopes):
        for k, v in _children(d):
            vs = v if isinstance(v, list) else [v]
            for item in vs:
                sc = scopes + [_xmlns_of(item)]
                # an element's own name is resolved in the scope that includes its own declarations
                found[k.split(':')[-1].split('}')[-1]] = _resolve(k, sc)
                walk(item, sc)
    walk(data, scopes)
    for local, xname in expected.items():
        if found.get(local) != xname:
            return False
    return True


def h_decode(**kw) -> bool:
    xml, expected = _build(kw)
    conv = CONV[CFG["converter"]]
    mode = CFG["mode"]
    data, errors = SCHEMA.decode(xml, validation='lax', converter=conv, xmlns_processing=mode)
    if errors:
        return False
    if CFG["converter"] == "jsonml":
        return _check_jsonml(data, expected)
    user_ns = {}
    if mode != 'stacked':
        # collapsed / root-only: the data carries no per-node xmlns; names must resolve with the map the API reports
        res = xmlschema.XMLResource(xml)
        conv_inst = conv(namespaces=None, source=res, xmlns_processing=mode)
        list(_walk_ctx(conv_inst, res.root, 0))
        user_ns = dict(conv_inst.namespaces)
    return _check_default(data if CFG["converter"] == "default" else _strip_bf(data), expected, user_ns)


def _walk_ctx(conv, elem, level):
    conv.set_xmlns_context(elem, level)
    yield elem
    for ch in elem:
        yield from _walk_ctx(conv, ch, level + 1)


def _strip_bf(data):
    # BadgerFish wraps the root: {'p:n': {...}} and keeps namespaces under '@xmlns': {'p': uri, '$': default}
    def conv(d):
        if isinstance(d, dict):
            out = {}
            for k, v in d.items():
                if k == '@xmlns' and isinstance(v, dict):
                    for p, u in v.items():
                        out['@xmlns' if p == '$' else '@xmlns:' + p] = u
                else:
                    out[k] = conv(v)
            return out
        if isinstance(d, list):
            return [conv(x) for x in d]
        return d
    d = conv(data)
    if isinstance(d, dict) and len([k for k in d if not k.startswith('@')]) == 1:
        rootkey = [k for k in d if not k.startswith('@')][0]
        inner = d[rootkey]
        if isinstance(inner, dict):
            inner = dict(inner)
            for k, v in d.items():
                if k.startswith('@xmlns'):
                    inner.setdefault(k, v)
            return inner
    return d


def _check_jsonml(data, expected):
    # JsonML: [tag, {attrs incl. xmlns}, children...]
    found = {}

    def walk(node, scopes):
        if not isinstance(node, list) or not node:
            return
        tag = node[0]
        attrs = node[1] if len(node) > 1 and isinstance(node[1], dict) else {}
        sc = scopes + [{('' if k == 'xmlns' else k[6:]): v for k, v in attrs.items() if k == 'xmlns' or k.startswith('xmlns:')}]
        found[tag.split(':')[-1].split('}')[-1]] = _resolve(tag, sc)
        for ch in node[1:]:
            if isinstance(ch, list):
                walk(ch, sc)
    walk(data, [])
    for local, xname in expected.items():
        if found.get(local) != xname:
            return False
    return True


def h_roundtrip(**kw) -> bool:
    """encode(decode(doc)) restores the expanded names"""
    xml, expected = _build(kw)
    conv = CONV[CFG["converter"]]
    data, errors = SCHEMA.decode(xml, validation='lax', converter=conv, xmlns_processing=CFG["mode"])
    if errors:
        return False
    enc = SCHEMA.encode(data, validation='lax', converter=conv, xmlns_processing=CFG["mode"], path='p:n', namespaces={'p': U["u1"]})
    elem = enc[0] if isinstance(enc, tuple) else enc
    if elem is None:
        return False
    tags = [e.tag for e in elem.iter()]
    want = ['{%s}n' % U["u1"], expected["a"], expected["b"]] + ([expected["z"]] if "z" in expected else []) + [expected["c"]]
    return tags == want


def explain(fn, args):
    if fn == "h_mapper":
        return "NamespaceMapper operations %r" % ([M_OPS[args["o%d" % k]] for k in range(len(args))],)
    xml, expected = _build(args)
    conv = CONV[CFG["converter"]]
    data, errors = SCHEMA.decode(xml, validation='lax', converter=conv, xmlns_processing=CFG["mode"])
    out = "mode=%s converter=%s doc %s expected %r decoded %r" % (CFG["mode"], CFG["converter"], xml, expected, data)
    if fn == "h_roundtrip":
        try:
            enc = SCHEMA.encode(data, validation='lax', converter=conv, xmlns_processing=CFG["mode"], path='p:n', namespaces={'p': U["u1"]})
            elem = enc[0] if isinstance(enc, tuple) else enc
            out += " re-encoded tags %r" % ([e.tag for e in elem.iter()] if elem is not None else None)
        except Exception as e:
            out += " encode raised %r" % (e,)
    return out[:900]


META = {
    "level": "model_checking",
    "symbolic_kind": "finite-choice nesting scripts (declaration and naming indices per level)",
    "functions": [
        "xmlschema.namespaces.NamespaceMapper.set_xmlns_context", "xmlschema.namespaces.NamespaceMapper.map_qname",
        "xmlschema.namespaces.NamespaceMapper.unmap_qname", "xmlschema.converters.base.XMLSchemaConverter.element_decode",
        "xmlschema.converters.base.XMLSchemaConverter.get_xmlns_from_data", "xmlschema.resources.xml_loader.XMLResourceLoader._parse",
    ],
    "bounds": {},
    "outside": "documents deeper than three levels, more than one declaration per element below the root, attributes in namespaces, lxml parser",
    "stubs": [],
    "assumptions": ["reference: Namespaces in XML 1.0 section 6 scoping, evaluated on the xmlns entries the decoded data itself reports"],
}


def obligations(tier, seed):
    quick = tier == "quick"
    out = []
    nd = 6 if quick else len(DECLS)
    args = [[a, "int"] for a in ("ad", "an", "bd", "bn", "cn")]
    plan = [("stacked", "default"), ("stacked", "jsonml"), ("collapsed", "default")] if quick else [("stacked", "default"), ("stacked", "jsonml"), ("stacked", "badgerfish"), ("collapsed", "default"), ("root-only", "default")]
    for mode, conv in plan:
        for qroot in range(len(QROOT)):
            out.append({"name": "decode/%s/%s/q%d" % (mode, conv, qroot), "fn": "h_decode", "pre": "pre_script", "args": args,
                        "config": {"qroot": qroot, "converter": conv, "mode": mode, "ndecl": nd, "nan": 2 if quick else 3, "ncn": 1 if quick else 2},
                        "timeout": 400 if quick else 3000, "twin_timeout": 30,
                        "bound": "3 levels + sibling; %d declaration choices per inner element; 2-3 naming choices" % nd})
    nops = 3 if quick else 4
    out.append({"name": "mapper/%d-ops" % nops, "fn": "h_mapper", "pre": "pre_mapper", "args": [["o%d" % k, "int"] for k in range(nops)], "config": {},
                "timeout": 400 if quick else 2000, "twin_timeout": 30,
                "bound": "every sequence of %d operations from %r on a NamespaceMapper, names %r" % (nops, M_OPS, M_NAMES)})
    for qroot in (range(len(QROOT)) if not quick else (1,)):
        out.append({"name": "roundtrip-deep/stacked/default/q%d" % qroot, "fn": "h_roundtrip", "pre": "pre_script", "args": args,
                    "config": {"qroot": qroot, "converter": "default", "mode": "stacked", "ndecl": nd, "nan": 1, "ncn": 2, "deepc": True},
                    "timeout": 400 if quick else 3000, "twin_timeout": 30, "bound": "as decode, the following sibling one level deeper (<z><c/></z>)"})
        out.append({"name": "roundtrip/stacked/default/q%d" % qroot, "fn": "h_roundtrip", "pre": "pre_script", "args": args,
                    "config": {"qroot": qroot, "converter": "default", "mode": "stacked", "ndecl": nd, "nan": 2 if quick else 3, "ncn": 1 if quick else 2},
                    "timeout": 400 if quick else 3000, "twin_timeout": 30,
                    "bound": "as decode"})
    return out
