"""C16 - wildcard namespace constraints behave as sets of allowed names.

Engine A (CrossHair), pattern P2: wildcard objects are built by the real parser from XSD text, then the
constraint state (namespace / not_namespace / not_qname / target_namespace) of two live copies is
overwritten with SYMBOLIC sets and strings that satisfy the parser's representation invariant, and the
real methods (is_matching, is_namespace_allowed, union, intersection, is_restriction, is_overlap,
deny_namespaces) are executed symbolically.  The probed name's namespace is an arbitrary string.
"""
import copy
from typing import List, Set, Tuple

import xmlschema
from xmlschema import XMLSchema10, XMLSchema11
from xmlschema.exceptions import XMLSchemaValueError

from engine.known import open_regions
from engine.sym import mkset, pick

ID = "C16"

_XSD = """<xs:schema xmlns:xs="http://www.w3.org/2001/XMLSchema" targetNamespace="tns" xmlns="tns">
  <xs:complexType name="T">
    <xs:sequence><xs:any namespace="##any" processContents="lax" minOccurs="0"/></xs:sequence>
    <xs:anyAttribute namespace="##any" processContents="lax"/>
  </xs:complexType>
</xs:schema>"""

_S10 = XMLSchema10(_XSD)
_S11 = XMLSchema11(_XSD)
for _s in (_S10, _S11):
    _s.maps.cache.enabled = False        # the library's own switch: no memoised answer survives a path

_BASE = {
    "e10": _S10.types["T"].content[0],
    "a10": _S10.types["T"].attributes[None],
    "e11": _S11.types["T"].content[0],
    "a11": _S11.types["T"].attributes[None],
}
CFG = {"cls": "a10", "sh1": "set", "sh2": "set", "k1": 1, "k2": 1, "nq1": 0, "nq2": 0, "t1": "t", "t2": "t", "pool": False}
W1 = W2 = None
POOL = ['', 't', 'u', 'v', 'w']      # finite-choice namespaces for the notQName obligations (absent, both tns, two others)


def _decode(kw):
    """pool mode: namespace arguments are symbolic indices into POOL (finite choice) instead of symbolic strings.
    Used for the notQName obligations, where the library builds real sets of names (hashing forces concrete strings)."""
    if not CFG["pool"]:
        return kw
    out = {}
    for k, v in kw.items():
        if k in ("ploc", "qa", "qb"):
            out[k] = v
        else:
            out[k] = POOL[pick(v, len(POOL))]
    return out



def configure(cfg):
    global W1, W2
    CFG.update(cfg)
    W1 = copy.copy(_BASE[CFG["cls"]])
    W2 = copy.copy(_BASE[CFG["cls"]])


configure({})

SHAPES = ("any", "other", "set", "not")


def _ns_ok(x, braces_matter):
    # a namespace name: any string of <= 2 characters (so never '##any', '##other' or the xsi namespace);
    # braces cannot occur in the namespace part of an expanded name
    if len(x) > 2:
        return False
    if braces_matter and ('{' in x or '}' in x):
        return False
    return True


def _qn(ns, loc):
    return '{' + ns + '}' + loc if ns else loc


def _members(prefix, k, kw):
    return [kw[prefix + str(i + 1)] for i in range(k)]


def _operand(idx, kw):
    """(shape, members, tns, not_qname names) of operand idx (1|2) from the harness arguments.
    Target namespaces are concrete per obligation ('t', 'u' or absent): the library puts them into real set
    literals, which would force the engine to realise a symbolic value; set members and the probed namespace
    stay symbolic and may be equal to them."""
    sh = CFG["sh%d" % idx]
    k = CFG["k%d" % idx] if sh in ("set", "not") else 0
    mem = _members("a" if idx == 1 else "b", k, kw)
    t = CFG["t%d" % idx]
    nq = []
    if CFG["nq%d" % idx]:
        # the namespace of the excluded QName is one of the strings already in play or a fresh one: names are
        # only ever compared for equality, so this loses no case and avoids brace constraints on a free string
        pool = [kw["pns"], CFG["t1"], CFG["t2"], '', 'zz'] + _members("a", CFG["k1"] if CFG["sh1"] in ("set", "not") else 0, kw) \
            + _members("b", CFG["k2"] if CFG["sh2"] in ("set", "not") else 0, kw)
        nq = [_qn(pool[pick(kw["qa" if idx == 1 else "qb"], len(pool))], 'x')]
    return sh, mem, t, nq


def _pool_size():
    return 5 + (CFG["k1"] if CFG["sh1"] in ("set", "not") else 0) + (CFG["k2"] if CFG["sh2"] in ("set", "not") else 0)


def pre_pair(fn, **kw):
    if CFG["pool"]:
        for k, v in kw.items():
            if k not in ("ploc", "qa", "qb") and not (0 <= v < len(POOL)):
                return False
        kw = _decode(kw)
    braces = fn == 'h_matching' or CFG["nq1"] or CFG["nq2"]
    for k, v in kw.items():
        if k == "ploc":
            continue
        if k in ("qa", "qb"):
            if not (0 <= v < _pool_size()):
                return False
        elif not _ns_ok(v, braces):
            return False
    for idx in (1, 2):
        sh, mem, t, nq = _operand(idx, kw)
        # the members of one set are pairwise distinct (a set), which fixes the arity of this obligation
        for i in range(len(mem)):
            for j in range(i):
                if mem[i] == mem[j]:
                    return False
    return not _excluded(fn, kw)


def _install(w, sh, mem, t, nq):
    """the parser's representation (XsdWildcard._parse/_parse_not_constraints) for this shape"""
    if sh == "any":
        w.namespace = mkset(['##any'])
        w.not_namespace = ()
    elif sh == "other":
        w.namespace = mkset(['##other'])
        w.not_namespace = ()
    elif sh == "set":
        w.namespace = mkset(mem)
        w.not_namespace = ()
    else:
        w.namespace = mkset([])
        w.not_namespace = mkset(mem) if mem else ()
    w.target_namespace = t
    w.not_qname = mkset(nq) if nq else ()
    w.process_contents = 'lax'
    return w


def _allowed(op, pns, pname):
    """reference denotation evaluated on the harness arguments themselves (not on the object)"""
    sh, mem, t, nq = op
    if pname in nq:
        return False
    return _ns_allowed(op, pns)


def _ns_allowed(op, pns):
    sh, mem, t, nq = op
    if sh == "any":
        return True
    if sh == "other":
        return pns != '' and pns != t
    if sh == "set":
        return pns in mem
    if not mem:            # notNamespace="" leaves both sets empty: the state admits nothing
        return False
    return pns not in mem


def _excluded(fn, kw):
    g = globals()
    for pred in open_regions(__name__, fn):
        if g[pred](**kw):
            return True
    return False


def _match(w, pns, loc):
    """the real matching test for the name {pns}loc: expanded-name form when the namespace has no braces
    problem (h_matching), default-namespace form otherwise (same method, same verdict by its contract)"""
    if pns:
        return w.is_matching(loc, pns)
    return w.is_matching(loc)


def _setup(kw):
    kw = _decode(kw)
    op1 = _operand(1, kw)
    op2 = _operand(2, kw)
    w1 = _install(W1, *op1)
    w2 = _install(W2, *op2)
    pns = kw["pns"]
    loc = 'x' if kw.get("ploc", True) else 'y'
    return op1, op2, w1, w2, pns, loc, _qn(pns, loc)


# ---------------------------------------------------------------- basic membership

def h_matching(**kw) -> bool:
    op1, op2, w, w2, pns, loc, name = _setup(kw)
    want = _allowed(op1, pns, name)
    if w.is_matching(name) != want:
        return False
    if pns and w.is_matching(loc, pns) != want:       # local name + default namespace = same name
        return False
    nsw = _ns_allowed(op1, pns)
    if w.is_namespace_allowed(pns) != nsw:
        return False
    return True


# ---------------------------------------------------------------- union (extension)

def h_union(**kw) -> bool:
    op1, op2, w1, w2, pns, loc, name = _setup(kw)
    want = _allowed(op1, pns, name) or _allowed(op2, pns, name)
    try:
        w1.union(w2)
    except XMLSchemaValueError:
        # XSD 1.0 3.10.6 Attribute Wildcard Union, clause 5.3: "not expressible" only when one operand is
        # not(ns) and the other a set that contains absent but not ns
        if W1.xsd_version != '1.0':
            return False
        for o, s in ((op1, op2), (op2, op1)):
            if o[0] == "other" and s[0] == "set":
                return '' in s[1] and o[2] not in s[1] and o[2] != ''
        return False
    return _match(w1, pns, loc) == want


# ---------------------------------------------------------------- intersection (attribute groups)

def h_intersection(**kw) -> bool:
    op1, op2, w1, w2, pns, loc, name = _setup(kw)
    want = _allowed(op1, pns, name) and _allowed(op2, pns, name)
    w1.intersection(w2)
    return _match(w1, pns, loc) == want


# ---------------------------------------------------------------- restriction

def h_restriction(**kw) -> bool:
    op1, op2, w1, w2, pns, loc, name = _setup(kw)
    if w1.is_restriction(w2):
        if _allowed(op1, pns, name) and not _allowed(op2, pns, name):
            return False
    return True


# ---------------------------------------------------------------- overlap (element wildcards)

def h_overlap(**kw) -> bool:
    op1, op2, w1, w2, pns, loc, name = _setup(kw)
    got = w1.is_overlap(w2)
    if not got:
        # universal side: no name (here: the symbolic one) is admitted by both
        return not (_allowed(op1, pns, name) and _allowed(op2, pns, name))
    # existential side: a namespace holds infinitely many names, so a common namespace is a common name; a
    # finite candidate list (every mentioned namespace, absent, one fresh 3-character name) decides existence
    cands = ['', 'zzz', op1[2], op2[2]] + list(op1[1]) + list(op2[1])
    for c in cands:
        if _ns_allowed(op1, c) and _ns_allowed(op2, c):
            return True
    return False


# ---------------------------------------------------------------- known-finding regions (see known_findings.json)


def explain(fn, args):
    args = _decode(args)
    return "cls=%s op1=%r op2=%r probe ns=%r" % (CFG["cls"], _operand(1, args), _operand(2, args), args.get("pns"))


META = {
    "level": "model_checking",
    "symbolic_kind": "set of strings, string",
    "functions": [
        "xmlschema.validators.wildcards.XsdWildcard.is_matching",
        "xmlschema.validators.wildcards.XsdWildcard.is_namespace_allowed",
        "xmlschema.validators.wildcards.XsdWildcard.deny_namespaces",
        "xmlschema.validators.wildcards.XsdWildcard.deny_qnames",
        "xmlschema.validators.wildcards.XsdWildcard.union",
        "xmlschema.validators.wildcards.XsdWildcard.intersection",
        "xmlschema.validators.wildcards.XsdWildcard.is_restriction",
        "xmlschema.validators.wildcards.XsdAnyElement.is_overlap",
        "xmlschema.validators.wildcards.Xsd11AnyElement.is_matching",
        "xmlschema.validators.wildcards.Xsd11AnyAttribute.is_matching",
        "xmlschema.utils.qnames.get_namespace",
    ],
    "bounds": {
        "quick": "sets <= 2 members, member/target/probe namespace strings of length <= 2 (any characters, not starting with '#'), "
                 "not_qname <= 1 name per operand (locals x|y), equal target namespaces; all 4x4 shape pairs per operation and class",
        "thorough": "sets <= 3 members, not_qname <= 2, and independent target namespaces of the two operands",
    },
    "outside": "xsi namespace names (admitted unconditionally by design), ##defined/##definedSibling keywords, "
               "processContents, namespace strings longer than 2 characters (only equality between names matters)",
    "stubs": [],
    "assumptions": [
        "wildcard state produced by the parser has one of four shapes: {'##any'}, {'##other'}, a set of namespace names, "
        "or an empty namespace set with a non-empty not_namespace (XsdWildcard._parse/_parse_not_constraints)",
        "memoisation switched off with maps.cache.enabled=False",
    ],
}


def _args(cfg, op):
    a = []
    ty = "int" if cfg["pool"] else "str"
    for idx, pre in ((1, "a"), (2, "b")):
        if cfg["sh%d" % idx] in ("set", "not"):
            a += [[pre + str(i + 1), ty] for i in range(cfg["k%d" % idx])]
    if cfg["nq1"]:
        a.append(["qa", "int"])
    if cfg["nq2"]:
        a.append(["qb", "int"])
    a.append(["pns", ty])
    if cfg["nq1"] or cfg["nq2"]:
        a.append(["ploc", "bool"])
    return a


def obligations(tier, seed):
    out = []
    quick = tier == "quick"
    kmax = 2 if quick else 3
    to = 100 if quick else 900
    plan = [  # (operation, classes): union/intersection/is_restriction/is_overlap live in the base class; the class
              # decides xsd_version, isinstance tests and which is_matching reads the result
        ("h_matching", ("e10", "a10", "e11", "a11")),
        ("h_union", ("a10", "a11") if quick else ("a10", "a11", "e11")),
        ("h_intersection", ("a10", "a11")),
        ("h_restriction", ("a10", "e11") if quick else ("a10", "e10", "a11", "e11")),
        ("h_overlap", ("e10", "e11")),
    ]
    for op, classes in plan:
        for cls in classes:
            v11 = cls.endswith("11")
            shapes = SHAPES if v11 else SHAPES[:3]
            for sh1 in shapes:
                for sh2 in (shapes if op != "h_matching" else ("any",)):
                    ks1 = range(0 if sh1 == "set" else 1, kmax + 1) if sh1 in ("set", "not") else (0,)
                    ks2 = range(0 if sh2 == "set" else 1, kmax + 1) if sh2 in ("set", "not") else (0,)
                    for k1 in ks1:
                        for k2 in ks2:
                            if quick and k1 + k2 > (2 if (k1 and k2) else 2):
                                continue
                            tts = [("t", "t")]
                            if (sh1 == "other" or sh2 == "other") and op != "h_matching":
                                tts += [("", "")] + ([("t", "u"), ("t", ""), ("", "u")] if (k1 + k2 <= 1 or not quick) else [])
                            elif sh1 == "other":
                                tts += [("", "")]
                            for t1, t2 in tts:
                                nqs = [(0, 0)]
                                if v11 and op != "h_overlap":
                                    if op == "h_matching":
                                        if not quick or k1 <= 1:
                                            nqs += [(1, 0)]
                                    elif not quick:
                                        nqs += [(1, 0), (0, 1), (1, 1)]
                                    elif k1 + k2 == 0 and t1 == t2 == "t":
                                        nqs += [(1, 0), (0, 1), (1, 1)]
                                for nq1, nq2 in nqs:
                                    cfg = {"cls": cls, "sh1": sh1, "sh2": sh2, "k1": k1, "k2": k2,
                                           "nq1": nq1, "nq2": nq2, "t1": t1, "t2": t2,
                                           # pool mode also where the XSD 1.0 "not expressible" error formats both sets (repr of a
                                           # symbolic set makes the engine enumerate concrete strings without end)
                                           "pool": bool(nq1 or nq2) or (op == "h_union" and not v11 and k1 + k2 >= 2 and
                                                                        {sh1, sh2} == {"other", "set"})}
                                    out.append({
                                        "name": "%s/%s/%s%d-%s%d/q%d%d/t=%s,%s" % (op[2:], cls, sh1, k1, sh2, k2, nq1, nq2, t1 or "-", t2 or "-"),
                                        "fn": op, "pre": "pre_pair", "args": _args(cfg, op), "config": cfg,
                                        "timeout": to, "twin_timeout": 30,
                                        "bound": "set sizes exactly (%d,%d), not_qname (%d,%d), %s, tns (%r,%r)" % (
                                            k1, k2, nq1, nq2, "namespaces from a pool of 5 (finite choice)" if cfg["pool"] else "namespace strings <=2 chars", t1, t2),
                                    })
    return out
