"""C15 - schema build accepts a content model exactly when it is deterministic (UPA / EDC).

Engine A (CrossHair), pattern P2: each shape of the catalogue is built by the real parser (both XSD versions); the
occurrence bounds of ALL its particles (groups and leaves) are then overwritten, per path, by pairs selected through
symbolic indices into the occurrence-class table D5; the real check_model() runs under the tracer and its verdict is
compared with the independent position-automaton oracle (oracles/cm.py).  Symbolic kind: finite-choice (every
symbolic variable selects an occurrence class; the engine certifies that all |D5|^n vectors of a shape were explored).
"""
import json
import os

import xmlschema

from engine.sym import pick
from oracles import cm
from props import cmshapes as S

ID = "C15"
D5 = [(0, 1), (1, 1), (0, None), (1, None), (2, 2)]
_ROOT = os.path.dirname(os.path.dirname(os.path.abspath(__file__)))

CFG = {"shape": None, "version": "1.0", "mask": None, "gref": None}
STATE = {}
_KNOWN = None


def known_vectors(version, sid):
    global _KNOWN
    if _KNOWN is None:
        _KNOWN = {}
        path = os.path.join(_ROOT, "known", "C15.json")
        kf = os.path.join(_ROOT, "known_findings.json")
        is_open = any(f["id"] == "C15-check-model-heuristic" and f["status"] == "open"
                      for f in json.load(open(kf))["findings"]) if os.path.exists(kf) else False
        if is_open and os.path.exists(path):
            raw = json.load(open(path))
            _KNOWN = {v: {s: set(tuple(int(c) for c in x) for x in lst) for s, lst in d.items()} for v, d in raw.items()}
    return _KNOWN.get(version, {}).get(sid, set())


def configure(cfg):
    CFG.update(cfg)
    if CFG.get("gref"):
        return _configure_gref(*CFG["gref"])
    if CFG["shape"] is None:
        return
    shape = _detuple(CFG["shape"])
    sch, root, group, parts = S.build(shape, CFG["version"])
    mask = CFG.get("mask") or list(range(len(parts)))
    STATE.update(shape=shape, group=group, parts=parts, n=len(parts), sid=S.shape_id(shape), mask=mask,
                 known=known_vectors(CFG["version"], S.shape_id(shape)))


def _configure_gref(outer, body):
    """(g, g) or (g | g) where g is ONE named group referenced twice: the leaves of g are the same declaration objects on
    both paths.  Symbolic: the occurrence classes of the enclosing group and of the two references; the oracle sees the
    expanded model."""
    P = S.S(S.E('c'))
    tag = {'s': 'sequence', 'c': 'choice'}[outer]
    new = '<xs:%s><xs:group ref="g"/><xs:group ref="g"/></xs:%s>' % (tag, tag)
    gdef = '<xs:group name="g"><xs:sequence>%s</xs:sequence></xs:group>' % ''.join('<xs:element ref="%s"/>' % n for n in body)
    text = S.schema_text(P).replace(S.to_xsd(P), new).replace('<xs:element name="r">', gdef + '<xs:element name="r">')
    cls = xmlschema.XMLSchema10 if CFG["version"] == "1.0" else xmlschema.XMLSchema11
    sch = cls(text, validation='lax')
    sch.maps.cache.enabled = False
    group = sch.elements['r'].type.content
    r1, r2 = list(group)
    assert r1 is not r2 and list(r1)[0] is list(r2)[0]
    shape = (outer, [S.S(*[S.E(n) for n in body]), S.S(*[S.E(n) for n in body])], 1, 1)
    STATE.update(shape=shape, group=group, parts=[group, r1, r2], n=3, sid="gref:" + S.shape_id(shape), mask=[0, 1, 2],
                 known=set(), gref_leaves=len(body), schema=sch)


def _ovec(vec):
    """occurrence vector of the oracle's (expanded) shape"""
    k = STATE.get("gref_leaves")
    if not k:
        return vec
    return [vec[0], vec[1]] + [(1, 1)] * k + [vec[2]] + [(1, 1)] * k


def _detuple(x):
    if isinstance(x, list) and x and isinstance(x[0], str) and x[0] in 'ewsca' and len(x[0]) == 1:
        if x[0] in 'sca':
            return (x[0], [_detuple(c) for c in x[1]], x[2], x[3])
        return tuple(x)
    return x


def _full(kw):
    """index vector for all particles: the masked ones from the arguments, the others fixed to (1,1)"""
    idx = [1] * STATE["n"]
    for k in STATE["mask"]:
        idx[k] = pick(kw["i%d" % k], len(D5))
    return idx


def pre_vec(fn, **kw):
    for v in kw.values():
        if not (0 <= v < len(D5)):
            return False
    return tuple(_full(kw)) not in STATE["known"]          # known-finding region: explicit list of vectors of this shape


def _verdicts(idx):
    from xmlschema.validators.models import check_model
    from xmlschema.validators.exceptions import XMLSchemaModelError
    vec = [D5[i] for i in idx]
    for p, (mn, mx) in zip(STATE["parts"], vec):
        p.min_occurs, p.max_occurs = mn, mx
        if hasattr(p, 'precedences'):
            p.precedences = {}
    try:
        check_model(STATE["group"])
        got = True
    except XMLSchemaModelError:
        got = False
    want = _oracle(vec)
    return got, want


def _oracle(vec):
    try:
        from crosshair.tracers import NoTracing
    except ImportError:
        return cm.deterministic(S.to_oracle(S.with_occurs(STATE["shape"], _ovec(vec))), CFG["version"], S.SUBST)
    with NoTracing():       # oracle on already-concrete data
        return cm.deterministic(S.to_oracle(S.with_occurs(STATE["shape"], _ovec(vec))), CFG["version"], S.SUBST)


def h_check(**kw) -> bool:
    # the indices select occurrence classes (finite choice): fix them first, then run the real code
    got, want = _verdicts(_full(kw))
    return got == want


def h_known(**kw) -> bool:
    """replay target for the stored known vectors: True when real and oracle verdicts agree"""
    return h_check(**kw)


def known_replay(config):
    """plain-interpreter replay of every listed known vector of this obligation's shape (called by the worker after
    the analysis, tracer off): how many still disagree with the oracle"""
    listed = sorted(STATE.get("known", ()))
    rep = 0
    ex = None
    for idx in listed:
        got, want = _verdicts(list(idx))
        if got != want:
            rep += 1
            if ex is None:
                ex = explain("h_check", {"i%d" % k: idx[k] for k in STATE["mask"]})
    return {"finding": "C15-check-model-heuristic", "listed": len(listed), "reproduced": rep, "example": ex}


def explain(fn, args):
    if fn == "h_strict_build":
        return "XSD %s content model %s as %s: expected %s by a strict build" % (
            CFG["version"], B_MODELS[args["m"]][0], B_KINDS[args["k"]], "accepted" if B_MODELS[args["m"]][1] else "rejected")
    idx = _full(args)
    vec = [D5[i] for i in idx]
    got, want = _verdicts(idx)
    return "XSD %s model %s : check_model %s, oracle says %s" % (
        CFG["version"], ("[one named group referenced twice] " if STATE.get("gref_leaves") else "") +
        cm.render(S.to_oracle(S.with_occurs(STATE["shape"], _ovec(vec)))),
        "accepts" if got else "rejects", "deterministic" if want else "NOT deterministic")


META = {
    "level": "model_checking",
    "symbolic_kind": "finite-choice (occurrence classes per particle)",
    "functions": [
        "xmlschema.validators.models.check_model",
        "xmlschema.validators.models.distinguishable_paths",
        "xmlschema.validators.elements.XsdElement.is_overlap",
        "xmlschema.validators.elements.XsdElement.is_consistent",
        "xmlschema.validators.wildcards.XsdAnyElement.is_overlap",
        "xmlschema.validators.wildcards.Xsd11AnyElement.add_precedence",
        "xmlschema.validators.particles.ParticleMixin.is_univocal",
        "xmlschema.validators.groups.XsdGroup.is_emptiable",
    ],
    "bounds": {
        "quick": "seeded selection of catalogue shapes with <= 4 particles (groups+leaves; sequence/choice nesting depth <= 2; element, "
                 "wildcard ##any/##other/##targetNamespace/##local and substitution head/member leaves), every occurrence vector over "
                 "D5 = {?,1,*,+,{2,2}} for all particles, XSD 1.0 and 1.1",
        "thorough": "all catalogue shapes with <= 4 particles and a seeded selection of 5-particle shapes",
    },
    "outside": "occurrence bounds other than the five classes, models deeper than 2 or with more than 5 particles, 'all' groups, named "
               "groups referenced more than twice or below the top level (gref/* covers two references in one group), "
               "openContent; the through-the-constructor variant is exercised on the known-finding witnesses only",
    "stubs": [],
    "assumptions": [
        "UPA oracle: position automaton of the occurrence-unrolled model; copies of one particle do not compete (XSD Structures 3.8.6)",
        "occurrence bounds overwritten on live particles built by the parser (min<=max holds for every class); maps.cache disabled",
    ],
}


# ---------------------------------------------------------------- strict build of derived types (weak form, construction)
B_MODELS = [('<xs:element name="a" minOccurs="0"/><xs:element name="a"/>', False),                      # (a?, a): UPA
            ('<xs:element name="a"/><xs:element name="b"/>', True),
            ('<xs:element name="x" type="xs:string"/><xs:element name="b"/><xs:element name="x" type="xs:int"/>', False),   # EDC
            ('<xs:element name="a" minOccurs="0"/><xs:element name="b"/>', True),
            ('<xs:choice><xs:element name="a"/><xs:sequence><xs:element name="a"/><xs:element name="b"/></xs:sequence></xs:choice>', False),
            # the same named group g = (a) referenced twice: the shared declaration competes with itself along two paths
            ('<xs:group ref="g" minOccurs="0"/><xs:group ref="g"/>', False),                             # (g?, g) = (a?, a)
            ('<xs:group ref="g"/><xs:group ref="g"/>', True),                                            # (g, g) = (a, a)
            ('<xs:choice><xs:group ref="g"/><xs:group ref="g"/></xs:choice>', False),                    # (g | g)
            ('<xs:group ref="g" maxOccurs="unbounded"/><xs:group ref="g"/>', False),                     # (g+, g)
            ('<xs:sequence maxOccurs="2"><xs:group ref="g"/><xs:group ref="g" minOccurs="0"/></xs:sequence>', False)]   # (g, g?){1,2}
B_GROUP = '<xs:group name="g"><xs:sequence><xs:element name="a"/></xs:sequence></xs:group>'
B_KINDS = ["plain", "restriction-of-wildcard-base", "extension-of-empty-base", "restriction-of-anyType", "local-type-of-element"]


def pre_build(fn, m, k):
    return 0 <= m < len(B_MODELS) and 0 <= k < len(B_KINDS)


def h_strict_build(m: int, k: int) -> bool:
    """the schema constructor (strict mode) accepts a complex type exactly when its content model is deterministic and
    consistent, whatever way the type is derived"""
    from engine.sym import real_io
    from xmlschema.exceptions import XMLSchemaException
    model, ok = B_MODELS[pick(m, len(B_MODELS))]
    kind = B_KINDS[pick(k, len(B_KINDS))]
    seq = '<xs:sequence>%s</xs:sequence>' % model
    if kind == "plain":
        body = '<xs:complexType name="T">%s</xs:complexType>' % seq
    elif kind == "restriction-of-wildcard-base":
        body = ('<xs:complexType name="B"><xs:sequence><xs:any processContents="lax" minOccurs="0" maxOccurs="unbounded"/></xs:sequence></xs:complexType>'
                '<xs:complexType name="T"><xs:complexContent><xs:restriction base="B">%s</xs:restriction></xs:complexContent></xs:complexType>' % seq)
    elif kind == "extension-of-empty-base":
        body = ('<xs:complexType name="B"><xs:attribute name="q"/></xs:complexType>'
                '<xs:complexType name="T"><xs:complexContent><xs:extension base="B">%s</xs:extension></xs:complexContent></xs:complexType>' % seq)
    elif kind == "restriction-of-anyType":
        body = '<xs:complexType name="T"><xs:complexContent><xs:restriction base="xs:anyType">%s</xs:restriction></xs:complexContent></xs:complexType>' % seq
    else:
        body = '<xs:element name="e"><xs:complexType>%s</xs:complexType></xs:element>' % seq
    text = '<xs:schema xmlns:xs="http://www.w3.org/2001/XMLSchema">%s%s</xs:schema>' % (B_GROUP, body)
    with real_io():
        cls = xmlschema.XMLSchema10 if CFG["version"] == "1.0" else xmlschema.XMLSchema11
        try:
            cls(text)
            accepted = True
        except XMLSchemaException:
            accepted = False
    return accepted == ok


def obligations(tier, seed):
    import random
    cat = S.catalogue()
    by_n = {}
    for s in cat:
        by_n.setdefault(len(S.nodes_preorder(s)), []).append(s)
    rnd = random.Random(seed)
    small = by_n.get(3, []) + by_n.get(4, [])
    if tier == "quick":
        n3 = by_n.get(3, [])
        n4 = by_n.get(4, [])
        n5 = by_n.get(5, [])
        picks = rnd.sample(n3, min(20, len(n3))) + rnd.sample(n4, min(22, len(n4)))
        plan = [(s, v) for k, s in enumerate(picks) for v in (("1.0", "1.1") if k % 3 == 0 else (("1.0",) if k % 3 == 1 else ("1.1",)))]
        plan += [(s, ("1.0", "1.1")[k % 2]) for k, s in enumerate(rnd.sample(n5, min(2, len(n5))))]
        # substitution-group competition in both orders is always part of the quick tier (both versions: XSD 1.1 has its own
        # element overlap test)
        subst = [s for s in cat if S.shape_id(s) in ("(m | h)", "(h | m)", "(m, h)", "(h, m)")]
        # ... and the transitive member l (behind the abstract intermediate member m2) against the head
        subst += [S.C(S.E('l'), S.E('h')), S.S(S.E('h'), S.E('l'))]
        plan = [(s, v) for s in subst for v in ("1.0", "1.1")] + [(s, v) for s, v in plan if s not in subst]
        to = 400
    else:
        n5 = by_n.get(5, [])
        plan = [(s, v) for s in small for v in ("1.0", "1.1")] + [(s, v) for s in rnd.sample(n5, min(60, len(n5))) for v in ("1.0", "1.1")]
        plan += [(s, v) for s in (S.C(S.E('l'), S.E('h')), S.C(S.E('h'), S.E('l')), S.S(S.E('l'), S.E('h')), S.S(S.E('h'), S.E('l'))) for v in ("1.0", "1.1")]
        to = 1500
    out = []
    c11 = S.catalogue_11()
    deep = S.catalogue_deep()
    if tier == "quick":
        crit = [s for s in c11 if any(t in S.shape_id(s) for t in ("any[##local]", "any[tns]"))]
        rest = [s for s in c11 if s not in crit]
        plan += [(s, "1.1") for s in crit + rnd.sample(rest, 6)]
        dplan = [(s, ("1.0", "1.1")[k % 2]) for k, s in enumerate(rnd.sample(deep, 8))]
    else:
        plan += [(s, "1.1") for s in c11]
        dplan = [(s, v) for s in deep for v in ("1.0", "1.1")]
    edc = S.catalogue_edc()
    plan += [(s, v) for s in edc for v in ("1.0", "1.1") if not (tier == "quick" and len(S.nodes_preorder(s)) > 4)]
    for s, v in plan:
        n = len(S.nodes_preorder(s))
        label = S.shape_id(s).replace(' ', '')
        if s in edc:          # the rendering drops the type labels: name the obligation after the leaf tokens
            label = "edc:" + label + ":" + ",".join(x[1] for x in S.nodes_preorder(s) if x[0] == 'e').replace(':', '=')
        out.append({
            "name": "check/%s/%s" % (v, label),
            "fn": "h_check", "pre": "pre_vec", "args": [["i%d" % k, "int"] for k in range(n)],
            "config": {"shape": s, "version": v, "mask": None}, "timeout": to, "twin_timeout": 30,
            "bound": "%d particles, %d occurrence vectors" % (n, len(D5) ** n),
        })
    for v in ("1.0", "1.1"):
        out.append({"name": "strict-build/%s" % v, "fn": "h_strict_build", "pre": "pre_build", "args": [["m", "int"], ["k", "int"]],
                    "config": {"shape": None, "version": v, "mask": None}, "timeout": 300, "twin_timeout": 30,
                    "bound": "%d content models x derivation kinds %r, schema constructed in strict mode (finite choice; construction outside the tracer)" % (len(B_MODELS), B_KINDS)})
    for v in ("1.0", "1.1"):
        for outer in "sc":
            for body in ("a", "ab"):
                out.append({
                    "name": "gref/%s/%s/%s" % (v, outer, body),
                    "fn": "h_check", "pre": "pre_vec", "args": [["i%d" % k, "int"] for k in range(3)],
                    "config": {"shape": None, "version": v, "mask": None, "gref": [outer, body]}, "timeout": to, "twin_timeout": 30,
                    "bound": "one named group g = (%s) referenced twice in a %s; occurrence classes of the enclosing group and of both "
                             "references symbolic (125 vectors), leaves (1,1)" % (", ".join(body), {"s": "sequence", "c": "choice"}[outer]),
                })
    for s, v in dplan:
        mask = deep_mask(s)
        out.append({
            "name": "deep/%s/%s" % (v, S.shape_id(s).replace(' ', '')),
            "fn": "h_check", "pre": "pre_vec", "args": [["i%d" % k, "int"] for k in mask],
            "config": {"shape": s, "version": v, "mask": mask}, "timeout": to, "twin_timeout": 30,
            "bound": "nesting depth 3; occurrences of the %d group particles and the last leaf symbolic (%d vectors), other leaves (1,1)" % (
                len(mask) - 1, len(D5) ** len(mask)),
        })
    return out


def deep_mask(shape):
    nodes = S.nodes_preorder(shape)
    groups = [i for i, n in enumerate(nodes) if n[0] in 'sca']
    return groups[:3] + [len(nodes) - 1] if len(groups) > 3 else groups + [len(nodes) - 1]
