"""Development-time generator of known/C14.json (plain enumeration; never run by the registered check): for every
(base, derived-shape, version) pair of props/C14.pairs(), the derived occurrence vectors for which is_restriction accepts
although the derived language is not included in the base language (words <= 4)."""
import itertools, json, os, sys
ROOT = os.path.dirname(os.path.dirname(os.path.abspath(__file__)))
sys.path.insert(0, ROOT)
if os.environ.get("VERIF_REPO"): sys.path.insert(0, os.environ["VERIF_REPO"])
from multiprocessing import Pool


def work(args):
    b, d, kind, version = args
    from props import C14, cmshapes as S
    from oracles import cm
    C14._KNOWN = {}
    C14.configure({"base": b, "derived": d, "version": version, "maxlen": 4, "base_occ": None})
    n = C14.STATE["n"]
    bad = []
    for idx in itertools.product(range(len(C14.D5)), repeat=n):
        kw = {"i%d" % k: v for k, v in enumerate(idx)}
        if not C14.h_pair(**kw):
            bad.append(''.join(str(i) for i in idx))
    return C14.pair_key(b, d, version), bad


if __name__ == '__main__':
    from props import C14, cmshapes as S
    jobs = [(b, d, kind, v) for v in ("1.0", "1.1") for b, d, kind in C14.pairs() if len(S.nodes_preorder(d)) <= 5]
    out = {}
    tot = 0
    with Pool(16) as p:
        for key, bad in p.imap_unordered(work, jobs):
            if bad:
                out[key] = bad
                tot += len(bad)
    json.dump(out, open(os.path.join(ROOT, "known", "C14.json"), "w"), sort_keys=True, separators=(",", ":"))
    print("pairs", len(jobs), "with unsound acceptance", len(out), "vectors", tot)
    for k, v in out.items():
        print(" ", k, len(v), v[:5])
