#!/bin/bash
# usage: seedbatch.sh id1 id2 ...  -> /tmp/seedbatch_<id>_<n>.log
for id in "$@"; do for n in 1 2; do
  /verif/tools/seedtest.sh $id /tmp/seed_${id}_out/patch$n.diff /tmp/seed_${id}_out/demo$n.py > /tmp/seedbatch_${id}_$n.log 2>&1
done; done
echo BATCH-DONE
