"""Development-time generator of known/C01.json (plain enumeration; the registered check never writes this file):
for every model of the fixed C01 catalogue, the words (index vectors over POOL, length <= 4, pool 7) on which the
validator's verdict/error-location differs from the language oracle on the CURRENT tree."""
import itertools, json, os, sys
ROOT = os.path.dirname(os.path.dirname(os.path.abspath(__file__)))
sys.path.insert(0, ROOT)
if os.environ.get("VERIF_REPO"): sys.path.insert(0, os.environ["VERIF_REPO"])
from multiprocessing import Pool

MAXLEN, NPOOL = 4, 8


def work(args):
    version, m = args
    from props import C01
    C01._KNOWN = {}          # do not subtract anything while learning
    C01.configure({"shape": m["shape"], "version": version, "occ": None, "open": m["open"], "n": MAXLEN, "pool": NPOOL, "key": m["key"]})
    bad = []
    acc = rej = 0
    for ln in range(MAXLEN + 1):
        for w in itertools.product(range(NPOOL), repeat=ln):
            kw = {"n": ln}
            kw.update({"w%d" % i: (w[i] if i < ln else 0) for i in range(MAXLEN)})
            if not C01.h_word(**kw):
                bad.append(''.join(str(i) for i in w))
    return m["key"], m["family"], bad


if __name__ == '__main__':
    from props import C01
    out = {}
    stats = {}
    with Pool(16) as p:
        jobs = [(v, m) for v in ("1.0", "1.1") for m in C01.models(v)]
        for key, fam, bad in p.imap_unordered(work, jobs, chunksize=4):
            st = stats.setdefault((key.split('|')[0], fam), [0, 0, 0])
            st[0] += 1
            if bad:
                out[key] = bad
                st[1] += 1
                st[2] += len(bad)
    os.makedirs(os.path.join(ROOT, "known"), exist_ok=True)
    json.dump(out, open(os.path.join(ROOT, "known", "C01.json"), "w"), sort_keys=True, separators=(",", ":"))
    for k in sorted(stats):
        print(k, "models %d, with mismatches %d, mismatching words %d" % tuple(stats[k]))
