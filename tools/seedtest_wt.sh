#!/bin/bash
# usage: tools/seedtest_wt.sh <prop-id> <patch.diff> <demo.py> [extra vx args]
# like seedtest.sh, but the patch is applied in a scratch worktree (/tmp/seedwt_<id>) and the check runs against it through
# VERIF_REPO, so /repo itself is never modified (safe while other runs read /repo).
ID=$1; PATCH=$2; DEMO=$3; shift 3
WT=/tmp/seedwt_${ID}_$$
git -C /repo worktree remove --force $WT >/dev/null 2>&1
git -C /repo worktree add -q --detach $WT HEAD || exit 2
cd $WT || exit 2
cp "$DEMO" _demo_seed.py
/venv/bin/python _demo_seed.py >/dev/null 2>&1; echo "demo on clean tree: rc=$?"
git apply "$PATCH" || { echo "PATCH DOES NOT APPLY"; cd /; git -C /repo worktree remove --force $WT; exit 2; }
/venv/bin/python _demo_seed.py >/dev/null 2>&1; echo "demo with patch: rc=$?"
rm -f _demo_seed.py
/verif/tools/baseline.py $WT | head -3
cd /verif && VERIF_REPO=$WT ./vx check $ID "$@" 2>&1 | grep -v "^  obl" | grep "VIOLATION\|SUMMARY\|HARNESS\|INCONCL" | cut -c1-250 | head -14
cd /; git -C /repo worktree remove --force $WT
