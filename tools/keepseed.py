#!/usr/bin/env python3
"""tools/keepseed.py <prop> <n>[:<dst-n>] <caught-by|MISSED> <needs...>  -- files a confirmed seeded change under /verif/seeded/"""
import json, os, shutil, sys
pid, n, caught = sys.argv[1], sys.argv[2], sys.argv[3]
n, _, dn = n.partition(':')
needs = ' '.join(sys.argv[4:])
src = '/tmp/seed_%s_out' % pid
dst = '/verif/seeded/%s-%s' % (pid, dn or n)
os.makedirs(dst, exist_ok=True)
shutil.copy(os.path.join(src, 'patch%s.diff' % n), os.path.join(dst, 'patch.diff'))
shutil.copy(os.path.join(src, 'demo%s.py' % n), os.path.join(dst, 'demo.py'))
notes = open(os.path.join(src, 'notes%s.txt' % n)).read()
json.dump({"property": pid, "breaks": notes.strip(), "needs_to_manifest": needs,
           "confirmed": "demo.py passes on the unchanged tree and fails with patch.diff applied; pinned baseline (1528 tests) passes with the patch "
                        "(tools/seedtest.sh: git apply in /repo, tools/baseline.py, demo, ./vx check, git checkout)",
           "detected_by": caught, "source": "independent sub-agent given only the property text and a scratch worktree"},
          open(os.path.join(dst, 'meta.json'), 'w'), indent=1)
print(dst)
