"""Development-time generator of known/C15.json (plain enumeration; the registered check never writes this file):
for every catalogue shape with <= 5 particles and both XSD versions, the occurrence vectors over D5 on which
check_model and the UPA/EDC oracle disagree on the CURRENT tree."""
import json, os, sys
ROOT = os.path.dirname(os.path.dirname(os.path.abspath(__file__)))
sys.path.insert(0, ROOT)
from multiprocessing import Pool
from tools.c15_sweep import work
from props import cmshapes as S

if __name__ == '__main__':
    cat = S.catalogue()
    out = {}
    stats = {}
    with Pool(16) as pool:
        for version in ("1.0", "1.1"):
            out[version] = {}
            a = r_ = 0
            from props.C15 import deep_mask
            jobs = [(k, s, version, 5) for k, s in enumerate(cat)]
            jobs += [(1000 + k, s, version, 9, deep_mask(s)) for k, s in enumerate(S.catalogue_deep())]
            if version == "1.1":
                jobs += [(2000 + k, s, version, 5) for k, s in enumerate(S.catalogue_11())]
            for k, r in pool.imap_unordered(work, jobs):
                if r is None:
                    continue
                sid, n, total, res = r
                if res:
                    out[version][sid] = sorted(''.join(str(i) for i in ix) for ix, g in res)
                    a += sum(1 for _, g in res if g)
                    r_ += sum(1 for _, g in res if not g)
            stats[version] = {"shapes_with_mismatch": len(out[version]), "accepted_nondeterministic": a, "rejected_deterministic": r_}
    os.makedirs(os.path.join(ROOT, "known"), exist_ok=True)
    json.dump(out, open(os.path.join(ROOT, "known", "C15.json"), "w"), sort_keys=True, separators=(",", ":"))
    print(stats)
