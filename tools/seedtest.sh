#!/bin/bash
# usage: tools/seedtest.sh <prop-id> <patch.diff> <demo.py> [extra vx args]   -- development aid for seeded changes
# confirms: demo passes on clean tree, patch applies, baseline passes with patch, demo fails with patch; then runs the check.
ID=$1; PATCH=$2; DEMO=$3; shift 3
cd /repo || exit 2
git diff --quiet || { echo "repo dirty"; exit 2; }
cp "$DEMO" /repo/_demo_seed.py
/venv/bin/python _demo_seed.py >/dev/null 2>&1; echo "demo on clean tree: rc=$?"
git apply "$PATCH" || { echo "PATCH DOES NOT APPLY"; rm -f /repo/_demo_seed.py; exit 2; }
/venv/bin/python _demo_seed.py >/dev/null 2>&1; echo "demo with patch: rc=$?"
rm -f /repo/_demo_seed.py
/verif/tools/baseline.py | head -3
cd /verif && ./vx check $ID "$@" 2>&1 | grep -v "^  obl" | grep "VIOLATION\|SUMMARY\|HARNESS\|INCONCL" | cut -c1-250 | head -12
git -C /repo checkout -- . ; git -C /repo status --short | head -3
