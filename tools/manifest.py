#!/usr/bin/env python3
"""Generates /verif/MANIFEST.json from the table below (kept in one place so that checks / not_applicable stay current)."""
import json
import os

ROOT = os.path.dirname(os.path.dirname(os.path.abspath(__file__)))
ALL = ["C%02d" % i for i in range(1, 21)]

TECH = "solver-based bounded checking: CrossHair symbolic execution (z3) of the real code"

CHECKS = {
    "C16": dict(
        technique=TECH + " - XsdWildcard methods with symbolic constraint sets and namespace strings vs. a set-denotation oracle",
        category="model_checking",
        text="Bounded symbolic model checking of the real wildcard code: for every pair of constraint shapes and set sizes within the bound, "
             "all paths of is_matching/union/intersection/is_restriction/is_overlap are explored with symbolic namespace strings (arbitrary "
             "strings of <=2 characters) and compared with the set denotation; 'Confirmed over all paths' per obligation; counterexamples "
             "are replayed on the plain interpreter before being reported.",
        note="Trusted: CrossHair/z3 path exploration; parser-produced representation invariant of wildcard state (4 shapes); sets <=2 members "
             "in quick (<=3 thorough); notQName obligations use a finite pool of 5 namespaces; xsi namespace and ##defined keywords outside the claim.",
        ref="DESIGN.md 5/C16"),
    "C15": dict(
        technique=TECH + " - check_model() on parser-built groups whose occurrence bounds are chosen by symbolic indices (finite choice), "
                         "vs. an independent position-automaton UPA/EDC oracle",
        category="model_checking",
        text="For each catalogue shape (sequence/choice nesting <=2, <=5 particles, element/wildcard/substitution leaves, XSD 1.0 and 1.1) the "
             "engine explores every occurrence vector over five occurrence classes for all particles and compares check_model's verdict with "
             "the Glushkov-automaton oracle in both directions; exhaustiveness per shape is certified by 'Confirmed over all paths'.",
        note="Finite-choice: the solver contributes certified exhaustiveness, not generalisation. Known finding (heuristic checker) listed per "
             "input in known/C15.json and subtracted from the search; oracle = UPA on the occurrence-unrolled model.",
        ref="DESIGN.md 5/C15"),
}

CHECKS["C01"] = dict(
    technique=TECH + " - schema.iter_errors() on parser-built content models with words chosen by symbolic indices (finite choice), "
                     "vs. a position-automaton language oracle; determinism filter by the independent UPA oracle",
    category="model_checking",
    text="For each model of a fixed catalogue (508 deterministic sequence/choice models with element, wildcard and substitution leaves and "
         "occurrence bounds from a 9-value domain, plus all-groups, XSD 1.1 element/wildcard competition and open-content models) the engine "
         "explores every child sequence up to length 4 over a name pool and compares the real validator's verdict (and the error's parent "
         "element) with language membership in the oracle automaton; 'Confirmed over all paths' certifies the word space was exhausted.",
    note="Finite-choice word dimension (the engine certifies exhaustiveness). Known finding (greedy ModelVisitor) listed per (model, word) in "
         "known/C01.json and subtracted from the search. Oracle: Glushkov automaton of the occurrence-unrolled model, XSD 1.1 element-over-"
         "wildcard precedence, open content per Structures 1.1 3.4.4.2.",
    ref="DESIGN.md 5/C01")

CHECKS["C12"] = dict(
    technique=TECH + " - XMLResource.access_control/get_url with a symbolic URL string (sandbox kernel, URL classification) and "
                     "finite-choice spelled locations through the real normalize_url",
    category="model_checking",
    text="Sandbox kernel: for every tail string (<=3 chars quick / <=5 thorough over 'sa/_') appended to the normalised base URL, acceptance "
         "implies component-wise containment; classification: for every URL built from a scheme-relevant alphabet the allow modes "
         "none/local/remote agree with an RFC 3986 scheme classifier and local/remote are mutually exclusive; spelled locations (relative, "
         "dotted, percent-encoded, absolute, file URL; segments chosen by symbolic indices) resolved by the real get_url never pass the "
         "sandbox unless the final URL lies inside the base directory.",
    note="The symbolic obligations open nothing (text-source resource; only get_url/access_control run). posixpath/pathlib are C-level and "
         "intolerant of symbolic strings, hence finite-choice spellings. Symlinks/Windows/network outside. The 'reach' obligation follows "
         "include/import/redefine/override/locations/xsi:schemaLocation on real files in a temporary tree for 6 mechanisms x 11 spellings; there "
         "the solver only picks the arrangement and each path is one concrete run outside the tracer (weak form, DESIGN 9).",
    ref="DESIGN.md 5/C12")

CHECKS["C11"] = dict(
    technique=TECH + " - XMLResource loading over a symbolic event script with symbolic integer limits (iterparse= stub); z3 integer query "
                     "for the recursion budget; finite-choice lexical mutations for exception escape",
    category="model_checking",
    text="Limits: for every well-nested event script up to the bound and every pair of limits in the range, XMLResourceExceeded is raised "
         "exactly when depth/element count exceed the limits (eager and lazy), all paths confirmed. Recursion budget: frames per nesting "
         "level measured on the live code, z3 searches a depth within MAX_XML_DEPTH exhausting the recursion limit; the model is replayed on "
         "a real document. Exception escape: for each selected builtin type, every text of <=2 (3 thorough) tokens from a boundary token "
         "list ends in a verdict or a library exception.",
    note="The expat event stream is replaced by the public iterparse= stub (documented event order assumed); garbled byte streams outside. "
         "Token texts are finite-choice. Known finding: RecursionError from depth 496 (region d>=496 subtracted from the z3 search).",
    ref="DESIGN.md 5/C11")

CHECKS["C04"] = dict(
    technique=TECH + " - every validation entry point on small documents (finite-choice structure and texts); z3 integer query "
                     "over the exit expression translated from the AST of cli.validate()",
    category="model_checking",
    text="Agreement harness: for every document of the bound (root + <=2/3 children from a pool covering valid/invalid values, ID/IDREF, "
         "dangling IDREF, unique violation, undeclared child; one child text from a lexical-variant pool) is_valid, iter_errors, validate, strict/lax/skip decode, "
         "the package-level functions and Element/ElementTree/XMLResource sources agree (same verdict, same error list, strict raises the "
         "first lax error, same data). CLI: for k<=3 files with 0..65536 errors each (or a caught exception) the exit status is 0 exactly when "
         "there is no error, decided by z3 on the translated exit expression and replayed by running the real command.",
    note="I/O source kinds (path, URL, bytes, open file) are exercised only in the CLI replay. POSIX exit-status contract (mod 256) is a stub.",
    ref="DESIGN.md 5/C04")

CHECKS["C02"] = dict(
    technique="solver-based checking: z3 (SMT) over encodings regenerated from the live tree - validator functions and bound/length facets "
              "translated from their AST into integer/sequence terms, compiled pattern objects translated (sre parse tree -> z3 regular "
              "expressions) and compared with the XSD productions; CrossHair symbolic execution for whitespace normalisation and facet objects",
    category="model_checking",
    text="Value ranges: for ALL integers (unbounded) the validators+bound facets of each of the 13 integer built-ins (both XSD versions) "
         "accept exactly the XSD range; bound and length facet classes accept exactly per their definition for all values/bounds. Lexical: "
         "for 18 pattern-defined types per version the implementation's regex (type.patterns, elementpath datatype patterns, validator "
         "patterns) equals the XSD production on all strings up to the length bound (both inclusions, unsat). Whitespace: normalize() equals "
         "the XSD whiteSpace processing for every string of <=2 (3) arbitrary characters and for longer strings over a whitespace alphabet.",
    note="Stubs: int()/float()/Decimal() C parsers taken by their documented grammar; date/time field ranges, float rounding, list/union "
         "composition and characters above U+2FFFF outside. Known findings (open): integer literals via int(), blanks inside xs:decimal.",
    ref="DESIGN.md 5/C02")

CHECKS["C03"] = dict(
    technique=TECH + " - attribute maps assembled from symbolic presence flags/value indices (finite choice) through schema.iter_errors/"
                     "decode, vs. a set-based reference of the attribute validation rules",
    category="model_checking",
    text="For each wildcard variant (none, ##other lax/strict, ##any strict, ##local skip, ##targetNamespace lax) and both XSD versions the "
         "engine explores every subset of <=2 (quick) / <=4 (thorough) of 12 candidate attributes (declared required/optional/fixed/default/"
         "qualified/global-ref/group, unqualified spellings, foreign, undeclared, unreferenced global) with every listed lexical value and "
         "compares the verdict with the reference; and the decoded data for every presence combination x use_defaults x fill_missing.",
    note="Finite-choice (certified exhaustive within the pool). Value dimension limited to int/boolean/decimal lexical variants (C02 covers "
         "datatypes); xsi:* attributes are C07 territory.",
    ref="DESIGN.md 5/C03")

CHECKS["C17"] = dict(
    technique=TECH + " - schema.decode()/encode() of documents whose prefix declarations are chosen by symbolic indices (finite-choice "
                     "nesting scripts), names resolved with the xmlns entries the decoded data reports",
    category="model_checking",
    text="For every nesting script of the bound (root + two nested levels + a following sibling; per inner element one of 5 (7 thorough) "
         "declarations over prefixes p, q, default and two URIs; 2-3 naming choices per element) and the default/JsonML (BadgerFish, "
         "collapsed, root-only in thorough) configurations, every element key of the decoded data resolves - under the namespace scoping "
         "rules applied to the data's own xmlns entries - to the element's expanded name, and encode(decode(doc)) restores the tags.",
    note="Finite-choice (certified exhaustive within the script space). The documents are parsed by the real parser inside the harness "
         "(a CrossHair artefact around ElementTree.iterparse closures is neutralised in the worker).",
    ref="DESIGN.md 5/C17")

CHECKS["C08"] = dict(
    technique=TECH + " - schema.iter_errors() on documents whose key/unique/keyref field values and ID/IDREF values are chosen by "
                     "symbolic indices from pools of lexical variants (finite-choice tables), vs. the set semantics of XSD 3.11.4",
    category="model_checking",
    text="For each template (1-field key+keyref, 2-field unique, 2-field key+keyref, unique+keyref, key scoped under a repeated element, "
         "ID/IDREF) and both XSD versions every table inside the bound (2-3 item rows, 1-2 reference rows, decimal field from "
         "{absent,1,1.0,2,01}, boolean field from {absent,true,1[,false]}) is validated by the real code and compared with the reference: "
         "duplicates among fully present tuples, key rows must be complete, fully present keyref tuples must match in value space, "
         "partially absent tuples are outside the qualified node set.",
    note="Finite-choice (certified exhaustive within the pools). Selector/field XPath fixed to child/attribute steps; >2 fields outside.",
    ref="DESIGN.md 5/C08")

CHECKS["C14"] = dict(
    technique=TECH + " - has_occurs_restriction/OccursCalculator on unbounded symbolic integers; XsdGroup.is_restriction on parser-built "
                     "(base, derived) group pairs with symbolic occurrence classes, soundness judged by language inclusion in the oracle",
    category="model_checking",
    text="Occurrence kernel: for ALL integer bounds and counts an accepted occurrence restriction implies range inclusion, and the "
         "calculator's sum/product equal interval arithmetic (paths exhausted, no value bound). Content models: for each (base, derived) "
         "pair of the catalogue (same shape, dropped particle, chosen branch, wildcard->element, substitution member, foreign/repeated "
         "element) and every occurrence-class vector of the derived particles, is_restriction()==True implies that every word up to the "
         "bound accepted by the derived model is accepted by the base model; XSD 1.0 and 1.1 code paths. Wildcard restriction: see C16.",
    note="Facet and attribute-use restriction checks run inside schema construction: exercised only in weak form (attr-use/*, attr-fixed/*, "
         "facet-restriction/*: the solver picks base/derived use, types, fixed values or facet pairs, the schema is constructed concretely "
         "outside the tracer and accepted derivations are compared on probe instances). Known finding: unsound acceptances of the (mainly "
         "XSD 1.1) group restriction checker, listed per input in known/C14.json.",
    ref="DESIGN.md 5/C14")

CHECKS["C07"] = dict(
    technique=TECH + " - schema.iter_errors() on instances using xsi:type / substitution members / xsi:nil / fixed / type alternatives, with "
                     "block and abstract flags of the live components and the instance variants chosen by symbolic indices (finite choice), "
                     "vs. the rules of Structures 3.3.4 evaluated on the template's declared derivation chains",
    category="model_checking",
    text="xsi:type: for every element block x declared-type block x 9 type names (derived by extension, restriction, two steps, mixed chain, "
         "unrelated, missing, simple) x 4 contents (x abstract type choice) the verdict equals: type exists, derivation chain not blocked, not "
         "abstract, content valid for the named type. Substitution: head block (incl. substitution) x type block x 5 members (one level, two "
         "levels) x member abstract x contents. xsi:nil/fixed: 3 elements x 5 nil values x 5 contents, value-space comparison of fixed. XSD 1.1 "
         "alternatives: first true test selects the type. Both schema classes; all paths confirmed.",
    note="Finite-choice. Flags are overwritten on built components (P2) in the representation the parser produces; blockDefault/finalDefault "
         "parsing and hierarchies deeper than two steps outside.",
    ref="DESIGN.md 5/C07")

CHECKS["C13"] = dict(
    technique=TECH + " - is_defused() on a symbolic base-URL string; DefusableReader and defuse_xml() control flow under finite-choice "
                     "read-size / event scripts; payload catalogue through the real parser",
    category="other",
    text="Partial (pyexpat trusted). Decided within bounds: (1) defusing is selected exactly for always / non-local under 'nonlocal' / remote "
         "under 'remote' for every base URL string of the bound; (2) after a pre-scan read and seek(0) the re-reader delivers exactly the "
         "original bytes with a consistent tell(), or raises OSError, for every read-size script and stream length around the buffer size; "
         "(3) defuse_xml propagates a forbidden-declaration error raised before the first start tag for every event script and otherwise "
         "rewinds; (4) the three expat handlers are installed and always raise; (5) 11 DTD payloads x 4 source kinds through the real parser; "
         "(6) the same payloads through parse()/XmlDocument/subclass/schema entry points of objects created with defuse='always'; (7) 8 DTD "
         "prologs x {main schema text/file, included, imported, include_schema(), instance} x {plain, parent-derived schema set} on real files "
         "(weak form: the solver picks the arrangement, each path is one concrete run outside the tracer).",
    note="Trusted base: pyexpat calls the declaration handlers before expanding/fetching (Python documentation). Buffer size constant scaled to "
         "8 bytes in the reader obligations. URL sources and encodings inside expat outside.",
    ref="DESIGN.md 5/C13")

CHECKS["C19"] = dict(
    technique=TECH + " - etree_getpath() on trees chosen by symbolic shape/tag/target indices vs. a reference path evaluator; "
                     "schema.iter_errors() on a template document damaged at a symbolic (node, fault kind)",
    category="model_checking",
    text="Path kernel: for every tree of 4 (5 thorough) nodes (every parent vector), every tag assignment from a pool over two namespaces and "
         "no namespace, every target node and four namespace maps (prefixes, default namespace, two prefixes for one URI, empty), the path "
         "returned for add_position=True selects exactly the target under the reference evaluator. Localisation: for each of 9 nodes x 9 fault "
         "kinds (bad value, removed/extra/misplaced child, missing/extra/bad attribute, undeclared leaf under a strict wildcard, dangling IDREF) the document is reported invalid, every error path "
         "selects exactly the error's element, one error sits at the damaged node or its parent and none outside its ancestor chain/subtree.",
    note="Finite-choice. Known finding: unprefixed step for a no-namespace element under a default-namespace map (region subtracted). Lazy "
         "resources and identity-constraint errors outside.",
    ref="DESIGN.md 5/C19")

CHECKS["C20"] = dict(
    technique=TECH + " - schema.find(), decode(path=)/iter_errors(path=) and decode(max_depth=) on a template document with the element "
                     "index, path spelling and depth chosen by symbolic indices (finite choice), vs. the declarations recorded by the "
                     "extra_validator hook and the matching part of the whole-document results",
    category="model_checking",
    text="For every element of the template documents (repeated local name v with three different types in different contexts, a global "
         "reference, a substitution member, repeated siblings; a valid and an invalid variant) and five path spellings, schema.find(path) is "
         "the declaration that governed the element; for every non-root element decode/iter_errors with path= equal the matching part of the "
         "whole-document data and errors; for max_depth 1..3 data and errors above the cut are unchanged.",
    note="Finite-choice. Known finding: partial decode of a substitution-group member (region subtracted). Lazy resources outside.",
    ref="DESIGN.md 5/C20")

CHECKS["C06"] = dict(
    technique=TECH + " - iter_errors()/decode()/XMLResource.iter() on the same document text loaded lazily (depth 1) and fully, document "
                     "shape chosen by symbolic indices (finite choice), differential comparison",
    category="model_checking",
    text="For every document of the bound (1-2 items quick, 3 thorough; per item key attribute, keyref attribute, 0-2 children with valid/"
         "invalid text, optional inner xmlns declaration) lazy depth-1 processing yields the same (reason, path) error sequence as the loaded "
         "document, the same decoded data after consuming the streamed children, and iteration yields the same tags, texts and in-scope "
         "namespaces in document order - outside the recorded findings. Further obligations: QName values whose prefix is declared on the "
         "streamed item itself, two items separated by up to 70 000 characters (expat read blocks), an undeclared wildcard-matched child with "
         "xsi:type, character data after a child, an invalid root attribute; verdict + multiset of reasons is compared on the whole domain "
         "with no exclusion.",
    note="Finite-choice. Real parser (expat) on the generated text. Known findings (open): reversed sibling order of lazy iter(), identity "
         "errors located at the last child, lazy decode() not reporting identity errors and dropping a chunk's own xmlns, root errors "
         "reported last, path spelling and positional predicate depending on the parser state; each subtracted by a region predicate from "
         "the ordered (reason, path) comparison only.",
    ref="DESIGN.md 5/C06")

CHECKS["C10"] = dict(
    technique=TECH + " - call histories (operation x document per step) chosen by symbolic indices on a schema built fresh per path, "
                     "probe result compared with an unused fresh schema (finite-choice, differential)",
    category="model_checking",
    text="For every history of the bound (quick: one step of 7 selected operations x 11 documents; thorough: two steps of 4 stateful "
         "operations x 8 documents) - is_valid, validate, iter_errors, strict/lax decode, to_objects, an abandoned iter_errors generator, "
         "decode+encode, a depth-limited decode, a lazy run - over documents that use xsi:type "
         "with complex content inside a key scope, duplicate keys reached through the xsi:type'd content, fixed values, a foreign wildcard "
         "child and early strict failures, every probe document yields the same verdict, (reason, path) errors and decoded data as on a "
         "schema that processed nothing; both schema classes.",
    note="Finite-choice. Schema construction runs with the tracer suspended (it cannot be executed under it); all validation calls are traced. "
         "Threads are C18 (not applicable).",
    ref="DESIGN.md 5/C10")

CHECKS["C05"] = dict(
    technique=TECH + " - decode/encode round trips per lossless converter on valid instances drawn by symbolic indices; strict-mode encode of "
                     "decoded data damaged by a symbolic (mutation, instance) choice (finite choice)",
    category="model_checking",
    text="Round trip: for every instance of the bound (lexical variants of an int, 0-2 simple-content elements with a boolean attribute, an "
         "optional nested complex element with decimal/date children, an optional int list) and each of the default, BadgerFish, GData, JsonML "
         "and DataElement converters, encode(decode(x)) is valid, has the same element structure and attribute names, decodes to the same data "
         "as the original and reproduces the converter's own data. Encoder soundness: for each of 11 mutations (drop, duplicate, retype, "
         "reorder, add entries) of the decoded data of every instance, strict encode raises a library error or returns XML the schema accepts.",
    note="Finite-choice. Free symbolic Python data does not reach 'Confirmed' (measured), so mutations are enumerated kinds. Known finding: None "
         "as value of a required simple element is encoded to an invalid empty element. Lossy converters excluded by the property's wording.",
    ref="DESIGN.md 5/C05")

NOT_APPLICABLE = {
    "C18": "quantifies over thread interleavings; no engine of this family here executes Python threads symbolically (CrossHair is "
           "single-threaded); see DESIGN.md section 6",
    "C09": "quantifies over textual arrangements of schema documents, each needing schema construction, which cannot be executed under "
           "CrossHair's tracer in this sandbox (measured); location-spelling kernel covered in C12; DESIGN.md section 6",
}
PENDING = "check not built yet in this round (claimed in DESIGN.md; will be removed from this list when its check lands)"


def main():
    checks = []
    for pid in ALL:
        c = CHECKS.get(pid)
        if not c:
            continue
        checks.append({
            "property_id": pid,
            "quick_cmd": "./vx check %s --tier quick" % pid,
            "thorough_cmd": "./vx check %s --tier thorough" % pid,
            "evidence_file": "/verif/evidence/%s.json" % pid,
            "replay_cmd_template": "./vx replay {path}",
            "engine": "crosshair-obligations",
            "technique": c["technique"],
            "level_claimed": {"category": c["category"], "text": c["text"], "design_ref": c["ref"]},
            "level_note": c["note"],
        })
    na = []
    for pid in ALL:
        if pid in CHECKS:
            continue
        na.append({"property_id": pid, "reason": NOT_APPLICABLE.get(pid, PENDING)})
    m = {
        "version": 1,
        "setup_cmd": "./setup.sh",
        "hooks": {
            "guard": "XMLSCHEMA_VERIF",
            "enable": "no source hooks: harnesses use public extension points (iterparse=, opener=, uri_mapper=, limits) or rebind module "
                      "attributes inside the checking process; the checks export XMLSCHEMA_VERIF=1 for uniformity",
            "baseline_off_cmd": "cd /repo && /venv/bin/python -m pytest -ra -q -p no:cacheprovider --timeout=900 --continue-on-collection-errors",
            "source_commits": [],
            "add_only": True,
        },
        "engines": [
            {"name": "crosshair-obligations", "path": "engine/worker.py", "serves_properties": sorted(CHECKS),
             "kind_free_text": "CrossHair 0.0.110 symbolic execution (z3 5.1.0) of harness functions that call the real xmlschema code on "
                               "objects built by the real parser; one process per obligation; reachability twin; plain-interpreter replay; "
                               "direct z3 (SMT) obligations for lexical/arithmetical kernels"},
        ],
        "checks": checks,
        "not_applicable": na,
        "notes": "see DESIGN.md; known_findings.json lists genuine defects (open = recorded, fixed = repaired by a fix: commit in /repo)",
    }
    with open(os.path.join(ROOT, "MANIFEST.json"), "w") as f:
        json.dump(m, f, indent=1)
    print("MANIFEST.json: %d checks, %d not_applicable" % (len(checks), len(na)))


if __name__ == "__main__":
    main()
