#!/bin/bash
for id in "$@"; do for n in 1 2; do
  /verif/tools/seedtest_wt.sh $id /tmp/seed_${id}_out/patch$n.diff /tmp/seed_${id}_out/demo$n.py > /tmp/seedbatch_${id}_$n.log 2>&1
done; done
echo BATCH-DONE
