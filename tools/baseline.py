#!/usr/bin/env python3
"""Run the repository's pinned baseline (guard OFF) and compare with /root/.vp/BASELINE.json stable_pass.
usage: tools/baseline.py [repo_dir]   exit 0 iff every stable_pass test passes."""
import json, os, subprocess, sys, tempfile, xml.etree.ElementTree as ET
repo = [a for a in sys.argv[1:] if not a.startswith("--")][0] if [a for a in sys.argv[1:] if not a.startswith("--")] else "/repo"
base = json.load(open("/root/.vp/BASELINE.json"))
out = tempfile.mktemp(suffix=".xml")
env = dict(os.environ); env.pop("XMLSCHEMA_VERIF", None)
extra = ["-n", "12"] if "--serial" not in sys.argv else []
subprocess.run(["/venv/bin/python", "-m", "pytest", "-ra", "-q", "-p", "no:cacheprovider", "--timeout=900",
                "--continue-on-collection-errors", "--junitxml=" + out] + extra, cwd=repo, env=env,
               stdout=subprocess.DEVNULL, stderr=subprocess.DEVNULL)
passed = set()
for tc in ET.parse(out).getroot().iter("testcase"):
    if not any(c.tag in ("failure", "error", "skipped") for c in tc):
        passed.add("%s::%s" % (tc.get("classname"), tc.get("name")))
os.unlink(out)
missing = [t for t in base["stable_pass"] if t not in passed]
if missing and extra:
    # a few tests write to shared temporary files and are flaky under xdist: confirm serially before reporting
    out2 = tempfile.mktemp(suffix=".xml")
    subprocess.run(["/venv/bin/python", "-m", "pytest", "-ra", "-q", "-p", "no:cacheprovider", "--timeout=900",
                    "--continue-on-collection-errors", "--junitxml=" + out2], cwd=repo, env=env,
                   stdout=subprocess.DEVNULL, stderr=subprocess.DEVNULL)
    passed = set()
    for tc in ET.parse(out2).getroot().iter("testcase"):
        if not any(c.tag in ("failure", "error", "skipped") for c in tc):
            passed.add("%s::%s" % (tc.get("classname"), tc.get("name")))
    os.unlink(out2)
    missing = [t for t in base["stable_pass"] if t not in passed]
print("stable_pass=%d passed_now=%d missing=%d" % (len(base["stable_pass"]), len(passed), len(missing)))
for t in missing[:30]:
    print("  NOT PASSING:", t)
sys.exit(1 if missing else 0)
