"""Development-time sweep for C01 (plain enumeration; NOT a registered check): which (model, word) pairs does the
validator decide differently from the language oracle, on deterministic models."""
import itertools, json, os, random, sys
ROOT = os.path.dirname(os.path.dirname(os.path.abspath(__file__)))
sys.path.insert(0, ROOT)
if os.environ.get("VERIF_REPO"): sys.path.insert(0, os.environ["VERIF_REPO"])
from multiprocessing import Pool

D5 = [(0, 1), (1, 1), (0, None), (1, None), (2, 2)]
DX = D5 + [(0, 2), (1, 2), (2, None), (2, 3)]


def work(args):
    k, shape, version, nvec, maxlen, pool, seed = args
    from props import C01, cmshapes as S
    from oracles import cm
    n = len(S.nodes_preorder(shape))
    rnd = random.Random(seed * 1000 + k)
    res = []
    tried = 0
    nd = 0
    for _ in range(nvec * 4):
        if tried >= nvec:
            break
        vec = [rnd.choice(DX) for _ in range(n)]
        model = S.to_oracle(S.with_occurs(shape, vec))
        if not cm.deterministic(model, version, S.SUBST):
            nd += 1
            continue
        tried += 1
        C01.configure({"shape": shape, "version": version, "n": maxlen, "pool": pool, "occ": vec, "open": None})
        for ln in range(maxlen + 1):
            for w in itertools.product(range(pool), repeat=ln):
                kw = {"n": ln}
                kw.update({"w%d" % i: (w[i] if i < ln else 0) for i in range(maxlen)})
                if not C01.h_word(**kw):
                    res.append((vec, list(w), C01.explain("h_word", kw)))
    return k, S.shape_id(shape), tried, res


if __name__ == '__main__':
    from props import cmshapes as S
    version = sys.argv[1]; maxn = int(sys.argv[2]); nvec = int(sys.argv[3]); maxlen = int(sys.argv[4]); pool = int(sys.argv[5])
    cat = [s for s in S.catalogue() if len(S.nodes_preorder(s)) <= maxn]
    tot = bad = 0
    out = {}
    with Pool(16) as p:
        for k, sid, tried, res in p.imap_unordered(work, [(k, s, version, nvec, maxlen, pool, 1) for k, s in enumerate(cat)]):
            tot += tried
            if res:
                out[sid] = res
                bad += len(res)
    json.dump(out, open('/tmp/p/c01_sweep_%s.json' % version, 'w'))
    print(version, "shapes", len(cat), "models", tot, "mismatching (model,word) pairs", bad, "shapes affected", len(out))
    for sid, res in list(out.items())[:25]:
        print(" ", res[0][2])
