"""Development-time sweep (plain enumeration; NOT a registered check): learns which (shape, occurrence vector)
pairs check_model decides differently from the UPA/EDC oracle, to populate known/C15.json."""
import itertools, json, sys, os
sys.path.insert(0, os.path.dirname(os.path.dirname(os.path.abspath(__file__))))
if os.environ.get("VERIF_REPO"): sys.path.insert(0, os.environ["VERIF_REPO"])
from multiprocessing import Pool
from props import cmshapes as S
from oracles import cm

D5 = [(0, 1), (1, 1), (0, None), (1, None), (2, 2)]


def work(args):
    k, shape, version, maxn = args[:4]
    mask = args[4] if len(args) > 4 else None
    from xmlschema.validators.models import check_model
    from xmlschema.validators.exceptions import XMLSchemaModelError
    nodes = S.nodes_preorder(shape)
    n = len(nodes)
    if n > maxn:
        return k, None
    sch, root, group, parts = S.build(shape, version)
    res = []
    msk = mask or list(range(n))
    for sub in itertools.product(range(len(D5)), repeat=len(msk)):
        idx = [1] * n
        for pos, v in zip(msk, sub):
            idx[pos] = v
        vec = [D5[i] for i in idx]
        for p, (mn, mx) in zip(parts, vec):
            p.min_occurs, p.max_occurs = mn, mx
            if hasattr(p, 'precedences'):
                p.precedences = {}
        try:
            check_model(group)
            got = True
        except XMLSchemaModelError:
            got = False
        want = cm.deterministic(S.to_oracle(S.with_occurs(shape, vec)), version, S.SUBST)
        if got != want:
            res.append((list(idx), got))
    return k, (S.shape_id(shape), n, len(D5) ** len(msk), res)


if __name__ == '__main__':
    version = sys.argv[1]
    maxn = int(sys.argv[2])
    cat = S.catalogue()
    with Pool(16) as pool:
        out = {}
        tot = bad = 0
        for k, r in pool.imap_unordered(work, [(k, s, version, maxn) for k, s in enumerate(cat)]):
            if r is None:
                continue
            sid, n, total, res = r
            tot += total
            bad += len(res)
            out[sid] = {"n": n, "total": total, "mismatch": len(res), "accepted_nondet": sum(1 for _, g in res if g),
                        "rejected_det": sum(1 for _, g in res if not g), "vectors": res}
    json.dump(out, open('/tmp/p/c15_sweep_%s.json' % version, 'w'))
    print(version, "shapes", len(out), "vectors", tot, "mismatches", bad, "shapes with mismatch", sum(1 for v in out.values() if v["mismatch"]))
