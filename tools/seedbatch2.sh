#!/bin/bash
# usage: seedbatch2.sh "<id> <n> <vx args>" ...
for spec in "$@"; do set -- $spec; id=$1; n=$2; shift 2
  /verif/tools/seedtest.sh $id /tmp/seed_${id}_out/patch$n.diff /tmp/seed_${id}_out/demo$n.py "$@" > /tmp/seedbatch_${id}_$n.log 2>&1
done
echo BATCH-DONE
