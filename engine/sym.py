"""Helpers usable inside harness functions both under CrossHair's tracer and on the plain interpreter."""


def mkset(items):
    """A mutable set holding the given (possibly symbolic) items WITHOUT hashing them.
    Under the tracer: CrossHair's ShellMutableSet over a LinearSet (membership by symbolic equality, the same
    class CrossHair uses for a symbolic Set[...] argument).  On the plain interpreter: a real set."""
    items = list(items)
    try:
        from crosshair.tracers import is_tracing, NoTracing
    except ImportError:       # pragma: no cover
        return set(items)
    if is_tracing():
        with NoTracing():
            return _snapset_class()(items)
    return set(items)


_SNAP = None


def _snapset_class():
    """ShellMutableSet whose binary/update operations snapshot a mutable right operand.

    CrossHair 0.0.110 builds `a - b`, `a & b`, `a | b`, `a.update(b)` ... as a LAZY view that keeps a reference to
    the mutable operand b, so `d = a - b; b.clear()` changes d afterwards (a real set difference is a value).
    That is an engine artefact (found as a non-reproducing counterexample in XsdWildcard.union); this subclass
    passes b's current immutable inner set instead, which restores Python's semantics."""
    global _SNAP
    if _SNAP is not None:
        return _SNAP
    from crosshair.simplestructs import ShellMutableSet, LinearSet
    from crosshair.tracers import NoTracing

    def snap(x):
        with NoTracing():         # isinstance/type are virtualised under the tracer (a ShellMutableSet "is a" set)
            if isinstance(x, ShellMutableSet):
                return x._inner
            if isinstance(x, (set, frozenset)):
                # a concrete operand: compare by equality instead of hashing the symbolic members of self
                return LinearSet(list(x))
            return x

    class SnapSet(ShellMutableSet):
        def _wrap(self, r):
            with NoTracing():
                if isinstance(r, ShellMutableSet) and not isinstance(r, SnapSet):
                    return SnapSet(r._inner)
                return r

        def __or__(self, x):
            return self._wrap(ShellMutableSet.__or__(self, snap(x)))

        def __and__(self, x):
            return self._wrap(ShellMutableSet.__and__(self, snap(x)))

        def __xor__(self, x):
            return self._wrap(ShellMutableSet.__xor__(self, snap(x)))

        def __sub__(self, x):
            return self._wrap(ShellMutableSet.__sub__(self, snap(x)))

        __ror__ = __or__
        __rand__ = __and__
        __rxor__ = __xor__

        def __ior__(self, x):
            return ShellMutableSet.__ior__(self, snap(x))

        def __iand__(self, x):
            return ShellMutableSet.__iand__(self, snap(x))

        def __isub__(self, x):
            return ShellMutableSet.__isub__(self, snap(x))

        def __ixor__(self, x):
            return ShellMutableSet.__ixor__(self, snap(x))

        def update(self, *its):
            return ShellMutableSet.update(self, *[snap(i) for i in its])

        def difference_update(self, x):
            return ShellMutableSet.difference_update(self, snap(x))

        def intersection_update(self, x):
            return ShellMutableSet.intersection_update(self, snap(x))

        def symmetric_difference_update(self, x):
            return ShellMutableSet.symmetric_difference_update(self, snap(x))

        def union(self, *its):
            return self._wrap(ShellMutableSet.union(self, *[snap(i) for i in its]))

        def intersection(self, *its):
            return self._wrap(ShellMutableSet.intersection(self, *[snap(i) for i in its]))

        def difference(self, *its):
            return self._wrap(ShellMutableSet.difference(self, *[snap(i) for i in its]))

        def copy(self):
            with NoTracing():
                return SnapSet(self._inner)

    _SNAP = SnapSet
    return SnapSet


def concrete(v):
    """realize a (possibly symbolic) value; identity on the plain interpreter"""
    try:
        from crosshair.tracers import is_tracing
        if is_tracing():
            from crosshair.core import deep_realize
            return deep_realize(v)
    except ImportError:       # pragma: no cover
        pass
    return v


def tame_xmlschema():
    """Engine artefact mitigation (DESIGN 10): under CrossHair, str.format()/repr() of an object deep-copies it
    ("deep realisation").  For xmlschema components that means copying the whole schema graph on every error
    message (seconds per path) and, for half-built resources, spurious AttributeErrors from __getstate__.
    Components, schemas, maps and resources carry no symbolic state that formatting needs, so deep realisation
    returns the object itself.  No effect on the plain interpreter (the hook name is CrossHair-specific)."""
    import xmlschema
    from xmlschema.validators.xsdbase import XsdValidator
    from xmlschema.resources import XMLResource
    from xmlschema.namespaces import NamespaceMapper
    targets = [XsdValidator, XMLResource, NamespaceMapper]
    try:
        from xmlschema.validators.builders import GlobalMaps
        targets.append(GlobalMaps)
    except Exception:
        pass
    try:
        from xmlschema.validators.xsd_globals import XsdGlobals
        targets.append(XsdGlobals)
    except Exception:
        pass
    try:
        from xmlschema.resources.xml_loader import XMLResourceLoader
        targets.append(XMLResourceLoader)
    except Exception:
        pass
    for cls in targets:
        if '__ch_deep_realize__' not in cls.__dict__:
            cls.__ch_deep_realize__ = lambda self, memo: self
        # CrossHair "short-circuits" calls of its own contract-carrying patches (repr/format) and deep-copies their
        # arguments in BEST_EFFORT mode, which honours __deepcopy__ (installed in analysis processes only)
        if '__deepcopy__' not in cls.__dict__:
            cls.__deepcopy__ = lambda self, memo: self


def pick(i, n):
    """concrete value of a symbolic index 0 <= i < n by explicit comparison (one two-way fork per candidate value;
    CrossHair's own realisation of an int explores many more decision nodes)"""
    for k in range(n):
        if i == k:
            return k
    raise ValueError("index out of range")


import contextlib as _contextlib


@_contextlib.contextmanager
def real_io():
    """Run a block with the tracer suspended and CrossHair's audit wall opened: harnesses that need real files (temporary
    schema trees) do their I/O here; everything inside is concrete (indices are realised by pick() before)."""
    import warnings
    try:
        from crosshair.tracers import NoTracing
        from crosshair import auditwall
    except ImportError:
        with warnings.catch_warnings():
            warnings.simplefilter("ignore")
            yield
        return
    with NoTracing(), warnings.catch_warnings():
        warnings.simplefilter("ignore")
        if auditwall._ENABLED:
            with auditwall.opened_auditwall():
                yield
        else:
            yield
