"""Helpers usable inside harness functions both under CrossHair's tracer and on the plain interpreter."""


def mkset(items):
    """A mutable set holding the given (possibly symbolic) items WITHOUT hashing them.
    Under the tracer: CrossHair's ShellMutableSet over a LinearSet (membership by symbolic equality, the same
    class CrossHair uses for a symbolic Set[...] argument).  On the plain interpreter: a real set."""
    items = list(items)
    try:
        from crosshair.tracers import is_tracing, NoTracing
    except ImportError:       # pragma: no cover
        return set(items)
    if is_tracing():
        with NoTracing():
            return _snapset_class()(items)
    return set(items)


_SNAP = None


def _snapset_class():
    """ShellMutableSet whose binary/update operations snapshot a mutable right operand.

    CrossHair 0.0.110 builds `a - b`, `a & b`, `a | b`, `a.update(b)` ... as a LAZY view that keeps a reference to
    the mutable operand b, so `d = a - b; b.clear()` changes d afterwards (a real set difference is a value).
    That is an engine artefact (found as a non-reproducing counterexample in XsdWildcard.union); this subclass
    passes b's current immutable inner set instead, which restores Python's semantics."""
    global _SNAP
    if _SNAP is not None:
        return _SNAP
    from crosshair.simplestructs import ShellMutableSet, LinearSet
    from crosshair.tracers import NoTracing

    def snap(x):
        with NoTracing():         # isinstance/type are virtualised under the tracer (a ShellMutableSet "is a" set)
            if isinstance(x, ShellMutableSet):
                return x._inner
            if isinstance(x, (set, frozenset)):
                # a concrete operand: compare by equality instead of hashing the symbolic members of self
                return LinearSet(list(x))
            return x

    class SnapSet(ShellMutableSet):
        def _wrap(self, r):
            with NoTracing():
                if isinstance(r, ShellMutableSet) and not isinstance(r, SnapSet):
                    return SnapSet(r._inner)
                return r

        def __or__(self, x):
            return self._wrap(ShellMutableSet.__or__(self, snap(x)))

        def __and__(self, x):
            return self._wrap(ShellMutableSet.__and__(self, snap(x)))

        def __xor__(self, x):
            return self._wrap(ShellMutableSet.__xor__(self, snap(x)))

        def __sub__(self, x):
            return self._wrap(ShellMutableSet.__sub__(self, snap(x)))

        __ror__ = __or__
        __rand__ = __and__
        __rxor__ = __xor__

        def __ior__(self, x):
            return ShellMutableSet.__ior__(self, snap(x))

        def __iand__(self, x):
            return ShellMutableSet.__iand__(self, snap(x))

        def __isub__(self, x):
            return ShellMutableSet.__isub__(self, snap(x))

        def __ixor__(self, x):
            return ShellMutableSet.__ixor__(self, snap(x))

        def update(self, *its):
            return ShellMutableSet.update(self, *[snap(i) for i in its])

        def difference_update(self, x):
            return ShellMutableSet.difference_update(self, snap(x))

        def intersection_update(self, x):
            return ShellMutableSet.intersection_update(self, snap(x))

        def symmetric_difference_update(self, x):
            return ShellMutableSet.symmetric_difference_update(self, snap(x))

        def union(self, *its):
            return self._wrap(ShellMutableSet.union(self, *[snap(i) for i in its]))

        def intersection(self, *its):
            return self._wrap(ShellMutableSet.intersection(self, *[snap(i) for i in its]))

        def difference(self, *its):
            return self._wrap(ShellMutableSet.difference(self, *[snap(i) for i in its]))

        def copy(self):
            with NoTracing():
                return SnapSet(self._inner)

    _SNAP = SnapSet
    return SnapSet


def concrete(v):
    """realize a (possibly symbolic) value; identity on the plain interpreter"""
    try:
        from crosshair.tracers import is_tracing
        if is_tracing():
            from crosshair.core import deep_realize
            return deep_realize(v)
    except ImportError:       # pragma: no cover
        pass
    return v
