"""Engine B helpers: translation of small Python expression/statement subsets (taken from the AST of the live source) into
z3 integer terms, and of compiled `re` patterns (sre parse tree of the live pattern object) into z3 regular expressions.
Anything outside the supported subset raises Unsupported -> the obligation is reported inconclusive, never guessed."""
import ast
import time

import z3


class Unsupported(Exception):
    pass


# ------------------------------------------------------------------ expressions over mathematical integers

def expr_to_z3(node, env):
    """env: name -> z3 term / python constant.  Returns a z3 ArithRef or BoolRef (bools are kept as BoolRef)."""
    if isinstance(node, ast.Constant):
        if isinstance(node.value, bool):
            return z3.BoolVal(node.value)
        if isinstance(node.value, int):
            return z3.IntVal(node.value)
        if node.value is None:
            raise Unsupported("None constant")
        raise Unsupported("constant %r" % (node.value,))
    if isinstance(node, ast.Name):
        if node.id not in env:
            raise Unsupported("unbound name %s" % node.id)
        v = env[node.id]
        return z3.IntVal(v) if isinstance(v, int) and not isinstance(v, bool) else v
    if isinstance(node, ast.UnaryOp):
        v = expr_to_z3(node.operand, env)
        if isinstance(node.op, ast.Not):
            return z3.Not(truthy(v))
        if isinstance(node.op, ast.USub):
            return -as_int(v)
        raise Unsupported(ast.dump(node.op))
    if isinstance(node, ast.BinOp):
        a, b = as_int(expr_to_z3(node.left, env)), as_int(expr_to_z3(node.right, env))
        if isinstance(node.op, ast.Add):
            return a + b
        if isinstance(node.op, ast.Sub):
            return a - b
        if isinstance(node.op, ast.Mult):
            return a * b
        if isinstance(node.op, ast.Mod):
            return a % b            # z3 mod on Int = Python's for positive divisors
        if isinstance(node.op, ast.FloorDiv):
            return a / b
        if isinstance(node.op, ast.BitAnd):
            # only the "& (2**k - 1)" idiom
            if isinstance(node.right, ast.Constant) and isinstance(node.right.value, int) and (node.right.value + 1) & node.right.value == 0:
                return a % (node.right.value + 1)
            raise Unsupported("bitand")
        if isinstance(node.op, ast.Pow) and isinstance(node.right, ast.Constant) and isinstance(node.left, ast.Constant):
            return z3.IntVal(node.left.value ** node.right.value)
        raise Unsupported(ast.dump(node.op))
    if isinstance(node, ast.BoolOp):
        vals = [expr_to_z3(v, env) for v in node.values]
        if all(z3.is_bool(v) for v in vals):
            return z3.And(*vals) if isinstance(node.op, ast.And) else z3.Or(*vals)
        # Python value semantics of and/or on ints: a or b == a if a else b
        out = as_int(vals[-1])
        for v in reversed(vals[:-1]):
            if isinstance(node.op, ast.Or):
                out = z3.If(truthy(v), as_int(v), out)
            else:
                out = z3.If(truthy(v), out, as_int(v))
        return out
    if isinstance(node, ast.Compare):
        left = expr_to_z3(node.left, env)
        conj = []
        for op, right in zip(node.ops, node.comparators):
            r = expr_to_z3(right, env)
            a, b = as_int(left), as_int(r)
            if isinstance(op, ast.Lt):
                conj.append(a < b)
            elif isinstance(op, ast.LtE):
                conj.append(a <= b)
            elif isinstance(op, ast.Gt):
                conj.append(a > b)
            elif isinstance(op, ast.GtE):
                conj.append(a >= b)
            elif isinstance(op, ast.Eq):
                conj.append(a == b)
            elif isinstance(op, ast.NotEq):
                conj.append(a != b)
            else:
                raise Unsupported(ast.dump(op))
            left = r
        return z3.And(*conj) if len(conj) > 1 else conj[0]
    if isinstance(node, ast.IfExp):
        c = truthy(expr_to_z3(node.test, env))
        return z3.If(c, as_int(expr_to_z3(node.body, env)), as_int(expr_to_z3(node.orelse, env)))
    if isinstance(node, ast.Call) and isinstance(node.func, ast.Name) and not node.keywords:
        args = [expr_to_z3(a, env) for a in node.args]
        f = node.func.id
        if f == 'min' and len(args) >= 2:
            out = as_int(args[0])
            for a in args[1:]:
                out = z3.If(as_int(a) < out, as_int(a), out)
            return out
        if f == 'max' and len(args) >= 2:
            out = as_int(args[0])
            for a in args[1:]:
                out = z3.If(as_int(a) > out, as_int(a), out)
            return out
        if f == 'bool' and len(args) == 1:
            return truthy(args[0])
        if f == 'int' and len(args) == 1:
            return as_int(args[0])
        if f == 'len' and len(args) == 1 and z3.is_seq(args[0]):
            return z3.Length(args[0])
        if f == 'abs' and len(args) == 1:
            a = as_int(args[0])
            return z3.If(a < 0, -a, a)
        raise Unsupported("call %s" % f)
    raise Unsupported(type(node).__name__)


def as_int(v):
    if z3.is_bool(v):
        return z3.If(v, z3.IntVal(1), z3.IntVal(0))
    return v


def truthy(v):
    if z3.is_bool(v):
        return v
    return v != 0


class Session:
    """one solver, timed queries, any 'unknown' is reported as such"""

    def __init__(self, timeout_ms=60000):
        self.s = z3.Solver()
        self.s.set("timeout", timeout_ms)
        self.queries = 0
        self.seconds = 0.0

    def check(self, *assumptions):
        t0 = time.perf_counter()
        self.s.push()
        for a in assumptions:
            self.s.add(a)
        r = str(self.s.check())
        model = self.s.model() if r == 'sat' else None
        self.s.pop()
        self.queries += 1
        self.seconds += time.perf_counter() - t0
        return r, model


# ------------------------------------------------------------------ regular expressions (sre parse tree -> z3 Re)

def _sre():
    try:
        import re._parser as sre_parse
        import re._constants as sre_constants
    except ImportError:           # pragma: no cover
        import sre_parse
        import sre_constants
    return sre_parse, sre_constants


def _char_range(lo, hi):
    return z3.Range(chr(lo), chr(hi))


_MAXCP = 0x2FFFF       # z3's default character sort covers 0..0x2FFFF


def _any_char():
    return z3.Range(chr(0), chr(_MAXCP))


_CATEGORY = None


def _category_re(cat, C):
    """\\d \\s \\w as used by the library's patterns: ASCII subset plus explicit extra code points where Python's
    str-pattern semantics are Unicode (documented in the evidence as an approximation only if ever hit)"""
    name = str(cat)
    if name.endswith('CATEGORY_DIGIT'):
        import unicodedata
        # Python \\d on str = Unicode category Nd; build the ranges from unicodedata within the z3 char range
        return _ranges_of(lambda c: unicodedata.category(chr(c)) == 'Nd')
    if name.endswith('CATEGORY_NOT_DIGIT'):
        import unicodedata
        return _ranges_of(lambda c: unicodedata.category(chr(c)) != 'Nd')
    if name.endswith('CATEGORY_SPACE'):
        return _ranges_of(lambda c: chr(c).isspace())
    if name.endswith('CATEGORY_NOT_SPACE'):
        return _ranges_of(lambda c: not chr(c).isspace())
    if name.endswith('CATEGORY_WORD'):
        return _ranges_of(lambda c: chr(c).isalnum() or chr(c) == '_')
    if name.endswith('CATEGORY_NOT_WORD'):
        return _ranges_of(lambda c: not (chr(c).isalnum() or chr(c) == '_'))
    raise Unsupported("category %s" % name)


_RANGE_CACHE = {}


def _ranges_of(pred, key=None):
    k = key or (pred.__code__.co_code, pred.__code__.co_consts)
    if k in _RANGE_CACHE:
        return _RANGE_CACHE[k]
    ranges = []
    start = None
    for c in range(0, _MAXCP + 1):
        if 0xD800 <= c <= 0xDFFF:
            ok = False
        else:
            ok = pred(c)
        if ok and start is None:
            start = c
        elif not ok and start is not None:
            ranges.append((start, c - 1))
            start = None
    if start is not None:
        ranges.append((start, _MAXCP))
    if not ranges:
        r = z3.Empty(z3.ReSort(z3.StringSort()))
    else:
        parts = [_char_range(a, b) for a, b in ranges]
        r = parts[0] if len(parts) == 1 else z3.Union(*parts)
    _RANGE_CACHE[k] = r
    return r


def sre_to_z3(pattern, flags=0):
    """pattern: a str pattern source or a compiled pattern.  Returns (z3 Re for FULL match of the anchored pattern).
    Supported: literals, classes (ranges, negation, categories), branches, groups (capturing or not), greedy/lazy
    repeats, '.', ^ / $ / \\A / \\Z anchors at the ends, and the idiom $(?!\\n\\Z) produced by the XSD pattern translator."""
    sre_parse, C = _sre()
    if hasattr(pattern, 'pattern'):
        flags = pattern.flags
        pattern = pattern.pattern
    tree = sre_parse.parse(pattern, flags)
    items = list(tree)
    # strip end anchors
    while items and str(items[0][0]) == 'AT' and str(items[0][1]) in ('AT_BEGINNING', 'AT_BEGINNING_STRING'):
        items.pop(0)
    # idiom: AT_END followed by ASSERT_NOT (lookahead \n\Z)
    if len(items) >= 2 and str(items[-1][0]) == 'ASSERT_NOT' and str(items[-2][0]) == 'AT' and str(items[-2][1]) == 'AT_END':
        items = items[:-2]
    while items and str(items[-1][0]) == 'AT' and str(items[-1][1]) in ('AT_END', 'AT_END_STRING'):
        # NOTE: a bare '$' also matches before a trailing newline; callers that care pass strings without newlines
        items.pop()
    return _seq(items, C, flags)


def _seq(items, C, flags):
    """right fold so that look-aheads constrain what FOLLOWS them: A (?=R) B == A . (R.Sigma* & B)"""
    rest = None          # z3 Re for the remainder, None = epsilon
    sigma_star = z3.Star(_any_char())
    for op, av in reversed(list(items)):
        name = str(op)
        if name in ('ASSERT', 'ASSERT_NOT'):
            direction, sub = av
            if direction != 1:
                raise Unsupported("look-behind")
            r = z3.Concat(_seq(list(sub), C, flags), sigma_star)
            if name == 'ASSERT_NOT':
                r = z3.Complement(r)
            rest = z3.Intersect(r, rest if rest is not None else z3.Re(""))
            continue
        node = _node(op, av, C, flags)
        rest = node if rest is None else z3.Concat(node, rest)
    return rest if rest is not None else z3.Re("")


def _node(op, av, C, flags):
    name = str(op)
    import re as _re
    if name == 'LITERAL':
        if av > _MAXCP:
            raise Unsupported("literal beyond z3 char range")
        if flags & _re.IGNORECASE and chr(av).lower() != chr(av).upper():
            return z3.Union(z3.Re(chr(av).lower()), z3.Re(chr(av).upper()))
        return z3.Re(chr(av))
    if name == 'NOT_LITERAL':
        return z3.Intersect(_any_char(), z3.Complement(z3.Re(chr(av))))
    if name == 'ANY':
        if flags & _re.DOTALL:
            return _any_char()
        return z3.Intersect(_any_char(), z3.Complement(z3.Re("\n")))
    if name == 'IN':
        neg = False
        parts = []
        for o, a in av:
            on = str(o)
            if on == 'NEGATE':
                neg = True
            elif on == 'LITERAL':
                if a <= _MAXCP:
                    parts.append(z3.Re(chr(a)))
            elif on == 'RANGE':
                lo, hi = a
                if lo <= _MAXCP:
                    parts.append(_char_range(lo, min(hi, _MAXCP)))
            elif on == 'CATEGORY':
                parts.append(_category_re(a, C))
            else:
                raise Unsupported("class item %s" % on)
        r = parts[0] if len(parts) == 1 else (z3.Union(*parts) if parts else z3.Empty(z3.ReSort(z3.StringSort())))
        if neg:
            r = z3.Intersect(_any_char(), z3.Complement(r))
        return r
    if name == 'BRANCH':
        alts = [_seq(list(a), C, flags) for a in av[1]]
        return alts[0] if len(alts) == 1 else z3.Union(*alts)
    if name == 'SUBPATTERN':
        return _seq(list(av[-1]), C, flags)
    if name in ('MAX_REPEAT', 'MIN_REPEAT', 'POSSESSIVE_REPEAT'):
        lo, hi, sub = av
        r = _seq(list(sub), C, flags)
        if str(hi) == 'MAXREPEAT':
            if lo == 0:
                return z3.Star(r)
            if lo == 1:
                return z3.Plus(r)
            return z3.Concat(z3.Loop(r, lo, lo), z3.Star(r))
        if lo == 0 and hi == 1:
            return z3.Option(r)
        return z3.Loop(r, lo, hi)
    if name == 'CATEGORY':
        return _category_re(av, C)
    if name == 'AT':
        raise Unsupported("inner anchor %s" % av)
    raise Unsupported("regex node %s" % name)


def validate_sre_translation(pattern, alphabet, maxlen=3):
    """translation validation of the encoding itself: the z3 regex and the real `re` object agree on every string over
    `alphabet` up to `maxlen` (enumeration validates the ENCODING; it does not decide any property)"""
    import itertools
    import re
    rx = pattern if hasattr(pattern, 'pattern') else re.compile(pattern)
    zre = sre_to_z3(rx)
    s = z3.Solver()
    n = 0
    for ln in range(maxlen + 1):
        for tup in itertools.product(alphabet, repeat=ln):
            w = ''.join(tup)
            real = rx.fullmatch(w) is not None if not rx.pattern.endswith('$') and not rx.pattern.endswith('\\Z)') else rx.match(w) is not None
            zz = z3.simplify(z3.InRe(z3.StringVal(w), zre))
            if not (z3.is_true(zz) or z3.is_false(zz)):
                s.push()
                s.add(zz)
                zz = z3.BoolVal(str(s.check()) == 'sat')
                s.pop()
            if z3.is_true(zz) != real:
                return False, w
            n += 1
    return True, n
