"""Runner: ./vx check <id> [--tier quick|thorough] ; ./vx replay <file>

Splits a property into obligations (props/<id>.py), runs each in a fresh worker process (16-way
parallel), replays every counterexample on the plain interpreter before reporting it, replays the
stored witnesses of known findings, checks the reachability twins, and writes evidence/<id>.json.

Exit codes: 0 = nothing violated (inconclusive obligations are listed, never counted as discharged)
            1 = VIOLATION (reproduced on the plain interpreter)
            3 = harness error (non-reproducing counterexample, vacuous obligation, worker crash)
"""
import argparse
import concurrent.futures as cf
import hashlib
import importlib
import json
import os
import subprocess
import sys
import time

ROOT = os.path.dirname(os.path.dirname(os.path.abspath(__file__)))
PY = os.path.join(ROOT, ".venv", "bin", "python")
BUILD = os.path.join(ROOT, "build")
os.environ.setdefault("XMLSCHEMA_VERIF", "1")
if os.environ.get("VERIF_REPO"):
    sys.path.insert(0, os.environ["VERIF_REPO"])


def _worker(spec, hard_timeout):
    os.makedirs(os.path.join(BUILD, spec["pid"], "specs"), exist_ok=True)
    h = hashlib.sha1(json.dumps(spec, sort_keys=True).encode()).hexdigest()[:10]
    path = os.path.join(BUILD, spec["pid"], "specs", "%s-%s.json" % (spec["name"].replace("/", "_")[:80], h))
    with open(path, "w") as f:
        json.dump(spec, f)
    t0 = time.time()
    try:
        p = subprocess.run([PY, "-m", "engine.worker", path], cwd=ROOT, capture_output=True, text=True,
                           timeout=hard_timeout, env=dict(os.environ, PYTHONHASHSEED="0", PYTHONDONTWRITEBYTECODE="1"))
    except subprocess.TimeoutExpired:
        return {"name": spec["name"], "status": "UNKNOWN", "error": "hard timeout %ss" % hard_timeout,
                "total_wall_s": round(time.time() - t0, 1)}
    out = p.stdout
    i = out.rfind("@@RESULT@@")
    if i < 0:
        return {"name": spec["name"], "status": "ERROR", "error": "worker died rc=%s" % p.returncode,
                "stderr": p.stderr[-3000:], "stdout": out[-1000:]}
    res = json.loads(out[i + len("@@RESULT@@"):].strip().splitlines()[0])
    return res


def replay(pid, module, fn, config, args, trace=False):
    spec = {"pid": pid, "name": "replay-%s" % fn, "engine": "replay", "module": module, "fn": fn,
            "config": config, "args": args, "trace_functions": trace}
    return _worker(spec, 600)


def load_known(pid):
    path = os.path.join(ROOT, "known_findings.json")
    if not os.path.exists(path):
        return []
    return [f for f in json.load(open(path))["findings"] if f["property"] == pid]


def check(pid, tier, seed, only=None, jobs=None):
    t_start = time.time()
    prop = importlib.import_module("props." + pid)
    obls = prop.obligations(tier, seed)
    if only:
        obls = [o for o in obls if only in o["name"]]
    for o in obls:
        o["pid"] = pid
        o.setdefault("engine", "ch")
        o.setdefault("module", "props." + pid)
        o.setdefault("config", {})
        o.setdefault("timeout", 60)
    jobs = jobs or min(16, os.cpu_count() or 4)
    violations, harness_errors, inconclusive, known_lines = [], [], [], []
    os.makedirs(os.path.join(BUILD, pid, "cex"), exist_ok=True)

    # 1. stored witnesses of known findings (open: expected to reproduce; fixed: must not)
    known = load_known(pid)
    known_status = {}      # finding id -> [reproduced witnesses, total witnesses, first outcome]
    for kf in known:
        for w in kf.get("witnesses", []):
            r = replay(pid, w["module"], w["fn"], w.get("config", {}), w["args"])
            if r.get("status") == "ERROR":
                harness_errors.append("known-finding witness %s: %s" % (kf["id"], r.get("error")))
                continue
            if kf["status"] == "open":
                st = known_status.setdefault(kf["id"], [0, 0, None])
                st[1] += 1
                if r.get("reproduced"):
                    st[0] += 1
                    st[2] = st[2] or "%s(%s) -> %s %s" % (w["fn"], json.dumps(w["args"].get("__kw__", w["args"])), r.get("outcome"), r.get("explain") or "")
                else:
                    print("NOTE a stored witness of known finding %s no longer reproduces on this tree (%s)" % (kf["id"], r.get("outcome")))
            else:  # fixed: suppresses nothing; a reproducing witness is a regression
                if r.get("reproduced"):
                    cexp = os.path.join(BUILD, pid, "cex", "regress-%s.json" % kf["id"])
                    json.dump({"pid": pid, "module": w["module"], "fn": w["fn"], "config": w.get("config", {}),
                               "args": w["args"], "outcome": r.get("outcome"), "note": "fixed finding returned: " + kf["id"]},
                              open(cexp, "w"), indent=1)
                    violations.append((kf["id"], cexp, "%s %s" % (r.get("outcome"), r.get("explain") or "")))

    # 2. the obligations
    results = []
    with cf.ThreadPoolExecutor(max_workers=jobs) as ex:
        futs = {}
        for o in obls:
            hard = o["timeout"] * 2.5 + o.get("twin_timeout", 20) * 2 + 90
            futs[ex.submit(_worker, o, hard)] = o
        for fut in cf.as_completed(futs):
            o = futs[fut]
            r = fut.result()
            r["spec"] = o
            results.append(r)
            st = r.get("status")
            line = "%-58s %-10s" % (o["name"][:58], st)
            if o["engine"] == "ch":
                line += " paths=%s conf=%s z3=%s/%.1fs wall=%ss" % (r.get("paths"), r.get("confirmed_paths"), r.get("solver_calls"),
                                                                r.get("solver_s") or 0, r.get("total_wall_s"))
                tw = r.get("twin")
                if tw:
                    line += " twin=%s" % tw["status"]
            else:
                line += " queries=%s solver=%.2fs wall=%ss" % (r.get("queries"), r.get("solver_s") or 0, r.get("total_wall_s"))
            print(line, flush=True)
    results.sort(key=lambda r: r["spec"]["name"])

    # 3. triage
    discharged = 0
    witnesses_replayed = 0
    functions = set()
    samples = []
    for r in results:
        o = r["spec"]
        st = r.get("status")
        name = o["name"]
        if st == "ERROR":
            harness_errors.append("%s: %s\n%s" % (name, r.get("error"), r.get("traceback") or r.get("stderr") or ""))
            continue
        # SMT obligations
        if o["engine"] == "smt":
            functions.update(r.get("functions", []))
            for s in r.get("samples", [])[:2]:
                samples.append({"obligation": name, "sample": s})
            if st == "unsat":
                discharged += 1
            elif st == "sat":
                cexs = r.get("cex") or []
                if not isinstance(cexs, list):
                    cexs = [cexs]
                any_rep = False
                for k, cex in enumerate(cexs):
                    cexp = os.path.join(BUILD, pid, "cex", "%s-%d.json" % (name.replace("/", "_"), k))
                    json.dump({"pid": pid, "module": o["module"], "fn": cex.get("replay_fn", o.get("replay_fn")),
                               "config": cex.get("config", o["config"]), "args": cex["args"], "message": cex.get("message")},
                              open(cexp, "w"), indent=1)
                    rr = replay(pid, o["module"], cex.get("replay_fn", o.get("replay_fn")), cex.get("config", o["config"]), cex["args"])
                    if rr.get("reproduced"):
                        any_rep = True
                        violations.append((name, cexp, "%s :: %s" % (cex.get("message"), rr.get("outcome"))))
                    else:
                        harness_errors.append("%s: solver model does not reproduce: %s -> %s" % (name, cex, rr))
                if not cexs:
                    harness_errors.append("%s: sat without model" % name)
            else:
                inconclusive.append("%s: %s %s" % (name, st, r.get("error", "")))
            continue
        # CrossHair obligations
        tw = r.get("twin")
        if tw is not None:
            if tw["status"] == "REFUTED" and tw.get("witness") is not None:
                rr = tw.get("plain") or replay(pid, o["module"], o["fn"], o["config"], tw["witness"], trace=True)
                witnesses_replayed += 1
                functions.update(rr.get("functions", []))
                if len(samples) < 40:
                    samples.append({"obligation": name, "reachability_witness_args": tw["witness"], "plain_outcome": rr.get("outcome")})
                if not rr.get("holds"):
                    # the twin found an input on which the harness returns normally; on the plain interpreter the
                    # property must hold there, otherwise the main search should have refuted it too
                    if st != "REFUTED":
                        harness_errors.append("%s: twin witness %s behaves differently on the plain interpreter: %s" % (
                            name, tw["witness"], rr.get("outcome")))
            elif tw["status"] == "CONFIRMED" or (tw["status"] == "REFUTED" and tw.get("witness") is None and st != "REFUTED"):
                if st == "CONFIRMED":
                    harness_errors.append("%s: vacuous (twin %s, messages %s)" % (name, tw["status"], tw.get("messages")))
                    continue
            elif tw["status"] == "UNKNOWN" and st == "CONFIRMED":
                inconclusive.append("%s: confirmed but reachability twin inconclusive" % name)
                continue
        if st == "CONFIRMED":
            discharged += 1
        elif st == "REFUTED":
            cex = r.get("cex") or {}
            cexp = os.path.join(BUILD, pid, "cex", "%s.json" % name.replace("/", "_"))
            json.dump({"pid": pid, "module": o["module"], "fn": o["fn"], "config": o["config"], "args": cex.get("args"),
                       "message": cex.get("message")}, open(cexp, "w"), indent=1)
            if cex.get("args") is None:
                harness_errors.append("%s: counterexample not parseable: %s" % (name, cex.get("message")))
                continue
            rr = replay(pid, o["module"], o["fn"], o["config"], cex["args"])
            if rr.get("reproduced"):
                violations.append((name, cexp, "%s :: plain interpreter: %s %s" % (cex.get("message"), rr.get("outcome"), rr.get("explain", ""))))
            else:
                harness_errors.append("%s: counterexample does not reproduce on the plain interpreter: %s -> %s" % (
                    name, cex.get("message"), rr.get("outcome")))
        else:
            inconclusive.append("%s: %s %s" % (name, st, (r.get("messages") or r.get("error") or "")))

    # known findings given as explicit per-obligation lists (replayed inside the workers on the plain interpreter)
    agg = {}
    for r in results:
        kr = r.get("known_replay")
        if kr and kr.get("listed"):
            a = agg.setdefault(kr["finding"], {"listed": 0, "reproduced": 0, "obligations": 0, "example": None})
            a["listed"] += kr["listed"]
            a["reproduced"] += kr["reproduced"]
            a["obligations"] += 1
            a["example"] = a["example"] or kr.get("example")
    for kf in known:
        if kf["status"] != "open":
            continue
        a = agg.get(kf["id"])
        st = known_status.get(kf["id"], [0, 0, None])
        if st[0] == 0 and not (a and a["reproduced"]):
            continue
        line = "KNOWN-FINDING: property=%s %s [%s] stored witnesses reproducing %d/%d" % (pid, kf["what"], kf["id"], st[0], st[1])
        if st[2]:
            line += "; e.g. " + st[2][:300]
        if a:
            line += "; listed inputs in this run's obligations: %d in %d obligations, %d still reproduce" % (a["listed"], a["obligations"], a["reproduced"])
            witnesses_replayed += a["listed"]
        witnesses_replayed += st[1]
        line = " ".join(line.split())          # one physical line per finding
        print(line)
        known_lines.append(line)
    for s in inconclusive:
        print("INCONCLUSIVE", s)
    for s in harness_errors:
        print("HARNESS-ERROR", s)
    for name, cexp, what in violations:
        print("VIOLATION property=%s replay=%s" % (pid, cexp))
        print("  obligation=%s  %s" % (name, " ".join(str(what).split())))

    # 4. evidence
    ch = [r for r in results if r["spec"]["engine"] == "ch"]
    smt = [r for r in results if r["spec"]["engine"] == "smt"]
    paths = sum(int(r.get("paths") or 0) for r in ch)
    conf_paths = sum(int(r.get("confirmed_paths") or 0) for r in ch)
    solver_calls = sum(int(r.get("solver_calls") or 0) for r in ch) + sum(int(r.get("queries") or 0) for r in smt)
    solver_s = sum(float(r.get("solver_s") or 0) for r in results)
    meta = getattr(prop, "META", {})
    declared = list(meta.get("functions", []))
    missing = []
    for dotted in declared:
        if not _resolves(dotted):
            missing.append(dotted)
    if missing:
        harness_errors.append("declared real functions not found in /repo: %s" % missing)
        print("HARNESS-ERROR declared functions missing:", missing)
    ev = {
        "property_id": pid,
        "tier": tier,
        "seed": seed,
        "level": meta.get("level", "model_checking"),
        "coverage": {
            "states": max(paths, 1),
            "transitions": max(solver_calls, 1),
            "traces_validated_against_impl": witnesses_replayed + len(known_lines),
            "samples": samples[:40] or [{"note": "no reachability witness recorded"}],
            "obligations": len(results),
            "discharged": discharged,
            "inconclusive": len(inconclusive),
            "inconclusive_list": inconclusive[:50],
            "paths_explored": paths,
            "paths_confirmed": conf_paths,
            "solver_calls": solver_calls,
            "solver_seconds": round(solver_s, 2),
            "exhaustive": False,
            "symbolic_kind": meta.get("symbolic_kind"),
            "bounds": meta.get("bounds", {}).get(tier, meta.get("bounds")),
            "outside_claim": meta.get("outside"),
            "functions_encoded_or_executed_declared": declared,
            "functions_executed_on_witness_replay": sorted(functions)[:400],
            "stubs": meta.get("stubs", []),
            "known_findings_replayed": known_lines,
            "explanation": meta.get("explanation", ""),
            "per_obligation": [
                {"name": r["spec"]["name"], "engine": r["spec"]["engine"], "status": r.get("status"), "paths": r.get("paths"),
                 "confirmed_paths": r.get("confirmed_paths"), "solver_calls": r.get("solver_calls", r.get("queries")),
                 "solver_s": r.get("solver_s"), "wall_s": r.get("total_wall_s"),
                 "twin": (r.get("twin") or {}).get("status"), "bound": r["spec"].get("bound")}
                for r in results],
            "evaluations": max(paths + sum(int(r.get("queries") or 0) for r in smt), 1),
            "distinct_nontrivial": max(conf_paths + sum(1 for r in smt if r.get("status") == "unsat"), 2),
            "rule": "one evaluation = one symbolic path explored by CrossHair (an equivalence class of inputs fixed by branch decisions) "
                    "or one SMT query; distinct_nontrivial = paths that reached the post-condition and were confirmed + unsat queries",
        },
        "assumptions": meta.get("assumptions", []),
        "wall_s": round(time.time() - t_start, 1),
        "violations": len(violations),
    }
    # development runs (a subset of the obligations, or a scratch copy of the repository) must not replace the evidence of
    # the last full run on /repo: they write next to the build output instead
    partial = bool(only) or bool(os.environ.get("VERIF_REPO"))
    ev_dir = os.path.join(ROOT, "build", pid) if partial else os.path.join(ROOT, "evidence")
    os.makedirs(ev_dir, exist_ok=True)
    with open(os.path.join(ev_dir, ("evidence_partial" if partial else pid) + ".json"), "w") as f:
        json.dump(ev, f, indent=1, sort_keys=True, default=str)
    print("SUMMARY property=%s tier=%s obligations=%d discharged=%d inconclusive=%d violations=%d harness_errors=%d "
          "paths=%d solver_calls=%d solver_s=%.1f wall=%.0fs" % (pid, tier, len(results), discharged, len(inconclusive), len(violations),
                                                              len(harness_errors), paths, solver_calls, solver_s, time.time() - t_start))
    if violations:
        return 1
    if harness_errors:
        return 3
    return 0


def _resolves(dotted):
    parts = dotted.split(".")
    for i in range(len(parts), 0, -1):
        try:
            obj = importlib.import_module(".".join(parts[:i]))
        except Exception:
            continue
        try:
            for p in parts[i:]:
                obj = getattr(obj, p)
            return True
        except AttributeError:
            return False
    return False


def replay_file(path):
    d = json.load(open(path))
    r = replay(d["pid"], d["module"], d["fn"], d.get("config", {}), d["args"])
    print(json.dumps({k: r.get(k) for k in ("outcome", "reproduced", "explain")}, indent=1))
    if r.get("reproduced"):
        print("VIOLATION property=%s replay=%s" % (d["pid"], path))
        return 1
    return 0


def main():
    ap = argparse.ArgumentParser()
    sub = ap.add_subparsers(dest="cmd", required=True)
    c = sub.add_parser("check")
    c.add_argument("pid")
    c.add_argument("--tier", default=os.environ.get("VERIF_TIER", "quick"))
    c.add_argument("--only", default=None)
    c.add_argument("--jobs", type=int, default=None)
    r = sub.add_parser("replay")
    r.add_argument("path")
    a = ap.parse_args()
    if a.cmd == "check":
        seed = int(os.environ.get("VERIF_SEED", "0") or 0)
        sys.exit(check(a.pid, a.tier, seed, a.only, a.jobs))
    else:
        sys.exit(replay_file(a.path))


if __name__ == "__main__":
    sys.path.insert(0, ROOT)
    main()
