"""Known-finding regions: predicates over a harness function's own arguments that are subtracted from
the SEARCH (never from the replay of the stored witness).  Only findings with status "open" subtract."""
import json
import os

_ROOT = os.path.dirname(os.path.dirname(os.path.abspath(__file__)))
_CACHE = None


def _open_regions():
    global _CACHE
    if _CACHE is None:
        path = os.path.join(_ROOT, "known_findings.json")
        regs = {}
        if os.path.exists(path):
            for f in json.load(open(path))["findings"]:
                if f.get("status") == "open":
                    for r in f.get("regions", []):
                        regs.setdefault((r["module"], r["fn"]), []).append(r["predicate"])
        _CACHE = regs
    return _CACHE


def open_regions(module, fn):
    """names of region predicate functions (defined in the harness module) to subtract for module.fn"""
    return list(_open_regions().get((module, fn), []))
