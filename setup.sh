#!/bin/bash
# Creates /verif/.venv: an overlay over /venv (the repository's environment) with /repo on the path
# and crosshair-tool (+ z3-solver) from the offline wheelhouse.  Idempotent; ~20 s the first time.
set -e
cd "$(dirname "$0")"
V=.venv
if [ ! -x $V/bin/python ] || ! $V/bin/python -c 'import crosshair, z3, xmlschema, elementpath' 2>/dev/null; then
  rm -rf $V
  /venv/bin/python -m venv $V
  SP=$($V/bin/python -c 'import sysconfig; print(sysconfig.get_paths()["purelib"])')
  printf '/venv/lib/python3.12/site-packages\n/repo\n' > "$SP/verif_overlay.pth"
  PIP_NO_INDEX=1 $V/bin/pip install -q --no-index --find-links /opt/veriftools/wheels crosshair-tool >/dev/null
  $V/bin/python -c 'import crosshair, z3, xmlschema, elementpath; assert xmlschema.__file__.startswith("/repo/"), xmlschema.__file__'
fi
echo "setup ok: $($V/bin/python -c 'import crosshair,z3,xmlschema;print("crosshair",crosshair.__version__,"z3",z3.get_version_string(),"xmlschema",xmlschema.__version__, xmlschema.__file__)')"
