"""Reference lexical spaces and value ranges of the XSD built-in datatypes, written from XSD 1.0 Part 2 (2nd ed.) /
XSD 1.1 Part 2 productions.  Plain Python regular-expression sources over ASCII-explicit classes (no \\d, \\w, \\s), to be
compiled into z3 regular expressions by engine/smt.py.  Never imports /repo.

Each entry: name -> dict(lex=<regex source for the normalised lexical form>, lo=<min value or None>, hi=<max value or None>)
For date/time types 'lex' is the SHAPE production (field digits not range-limited); field ranges are checked separately.
"""

TZ = r'(Z|[+\-]((0[0-9]|1[0-3]):[0-5][0-9]|14:00))'
YEAR = r'-?([1-9][0-9]{3,}|0[0-9]{3})'          # XSD 1.1 yearFrag
YEAR10 = r'-?[0-9]{4,}'                          # XSD 1.0: four or more digits (leading zeros prohibited beyond 4: CCYY)

INTEGER = r'[+\-]?[0-9]+'

INT_RANGES = {
    'integer': (None, None),
    'long': (-2 ** 63, 2 ** 63 - 1),
    'int': (-2 ** 31, 2 ** 31 - 1),
    'short': (-2 ** 15, 2 ** 15 - 1),
    'byte': (-2 ** 7, 2 ** 7 - 1),
    'nonNegativeInteger': (0, None),
    'positiveInteger': (1, None),
    'unsignedLong': (0, 2 ** 64 - 1),
    'unsignedInt': (0, 2 ** 32 - 1),
    'unsignedShort': (0, 2 ** 16 - 1),
    'unsignedByte': (0, 2 ** 8 - 1),
    'nonPositiveInteger': (None, 0),
    'negativeInteger': (None, -1),
}

# XML 1.0 (5th ed.) NameStartChar / NameChar, restricted to the Basic Multilingual Plane below the z3 char bound
_NSC = ':A-Z_a-z\u00C0-\u00D6\u00D8-\u00F6\u00F8-\u02FF\u0370-\u037D\u037F-\u1FFF\u200C-\u200D\u2070-\u218F\u2C00-\u2FEF' \
       '\u3001-\uD7FF\uF900-\uFDCF\uFDF0-\uFFFD'
_NC = _NSC + '\\-.0-9\u00B7\u0300-\u036F\u203F-\u2040'
_NSC_NOCOLON = _NSC[1:]
_NC_NOCOLON = _NC[1:]

LEXICAL = {
    'language': r'[a-zA-Z]{1,8}(-[a-zA-Z0-9]{1,8})*',
    'Name': '[' + _NSC + '][' + _NC + ']*',
    'NCName': '[' + _NSC_NOCOLON + '][' + _NC_NOCOLON + ']*',
    'NMTOKEN': '[' + _NC + ']+',
    'hexBinary': r'([0-9a-fA-F]{2})*',
    'boolean': r'true|false|1|0',
    'decimal': r'[+\-]?([0-9]+(\.[0-9]*)?|\.[0-9]+)',
    'float10': r'[+\-]?([0-9]+(\.[0-9]*)?|\.[0-9]+)([Ee][+\-]?[0-9]+)?|INF|-INF|NaN',
    'float11': r'[+\-]?([0-9]+(\.[0-9]*)?|\.[0-9]+)([Ee][+\-]?[0-9]+)?|[+\-]?INF|NaN',
    'gDay': r'---[0-9]{2}' + TZ + '?',
    'gMonth': r'--[0-9]{2}' + TZ + '?',
    'gMonthDay': r'--[0-9]{2}-[0-9]{2}' + TZ + '?',
    'gYear': YEAR10 + TZ + '?',
    'gYearMonth': YEAR10 + r'-[0-9]{2}' + TZ + '?',
    'date': YEAR10 + r'-[0-9]{2}-[0-9]{2}' + TZ + '?',
    'time': r'[0-9]{2}:[0-9]{2}:[0-9]{2}(\.[0-9]+)?' + TZ + '?',
    'dateTime': YEAR10 + r'-[0-9]{2}-[0-9]{2}T[0-9]{2}:[0-9]{2}:[0-9]{2}(\.[0-9]+)?' + TZ + '?',
    # duration: -?P( nY? nM? nD? (T nH? nM? n(.n)?S?)? ) with at least one component, and T followed by at least one
    'duration': r'-?P(([0-9]+Y)([0-9]+M)?([0-9]+D)?|([0-9]+M)([0-9]+D)?|([0-9]+D))?'
                r'(T(([0-9]+H)([0-9]+M)?([0-9]+(\.[0-9]+)?S)?|([0-9]+M)([0-9]+(\.[0-9]+)?S)?|([0-9]+(\.[0-9]+)?S)))?',
}
# duration needs "at least one component": handled by an extra constraint (not equal to 'P' / '-P') in the check.

XML_WHITESPACE = ' \t\n\r'


def normalize(mode, text):
    """XSD Part 2 4.3.6 whiteSpace: preserve | replace | collapse, over the four XML whitespace characters only"""
    if mode == 'preserve':
        return text
    out = ''.join(' ' if ch in '\t\n\r' else ch for ch in text)
    if mode == 'replace':
        return out
    parts = [p for p in out.split(' ') if p != '']
    return ' '.join(parts)


def _selftest():
    import re
    assert normalize('collapse', ' a \t b\n') == 'a b' and normalize('replace', 'a\tb') == 'a b' and normalize('collapse', '\xa05') == '\xa05'
    assert re.fullmatch(LEXICAL['duration'], 'P1Y2M3DT4H5M6.7S') and re.fullmatch(LEXICAL['duration'], 'PT1S') and not re.fullmatch(LEXICAL['duration'], 'P1YT')
    assert re.fullmatch(LEXICAL['gDay'], '---31+14:00') and not re.fullmatch(LEXICAL['gDay'], '---31+14:01')
    assert re.fullmatch(LEXICAL['NCName'], 'a-b.c') and not re.fullmatch(LEXICAL['NCName'], 'a:b') and not re.fullmatch(LEXICAL['NCName'], '1a')
    assert re.fullmatch(LEXICAL['dateTime'], '2000-01-01T00:00:00Z')


_selftest()
