"""Reference denotation of an XSD wildcard constraint (XSD 1.0 Structures 3.10.1/3.10.4 "Wildcard allows
Namespace Name"; XSD 1.1 Structures 3.10.4.2/3.10.4.3 "Wildcard allows Expanded Name").

A constraint state is (ns, not_ns, not_qn, tns):
  not_ns non-empty          -> every namespace except the listed ones ('' = absent)
  '##any' in ns             -> every namespace
  '##other' in ns           -> every namespace except tns and absent
  otherwise                 -> exactly the listed namespaces
and additionally the expanded name itself must not be listed in not_qn.
Never imported from /repo.
"""


def ns_allowed(ns, not_ns, tns, p):
    if not_ns:
        return p not in not_ns
    if '##any' in ns:
        return True
    if '##other' in ns:
        return p != '' and p != tns
    return p in ns


def allowed(ns, not_ns, not_qn, tns, pns, pname):
    return ns_allowed(ns, not_ns, tns, pns) and pname not in not_qn


def excluded_by_other(tns):
    """the complement of ##other for target namespace tns"""
    return {'', tns}


def _selftest():
    assert ns_allowed({'##other'}, (), 't', 'u') and not ns_allowed({'##other'}, (), 't', 't')
    assert not ns_allowed({'##other'}, (), 't', '')           # 1.0: not(ns) also excludes absent
    assert ns_allowed(set(), {'a'}, 't', '') and not ns_allowed(set(), {'a'}, 't', 'a')
    assert not ns_allowed(set(), (), 't', 'a')                 # namespace="" admits nothing
    assert allowed({'##any'}, (), {'{a}x'}, 't', 'a', '{a}y') and not allowed({'##any'}, (), {'{a}x'}, 't', 'a', '{a}x')


_selftest()
