"""Reference semantics of XSD content models (never imports /repo).

Model AST (plain tuples):
    ('e', name, min, max[, type])          element particle (name = expanded name; type = any hashable label)
    ('w', ns, min, max)                    element wildcard; ns = '##any' | '##other:<tns>' | tuple of namespaces ('' = absent)
    ('s'|'c'|'a', [children], min, max)    sequence | choice | all
max = None means unbounded.  A *word* is a list of expanded names '{ns}local' / 'local'.

1. language(model): membership by simulation of the position (Glushkov) automaton of the occurrence-unrolled model
   (p{m,n} -> m copies followed by n-m nested optional copies; n = unbounded -> a starred copy).  'all' groups are
   expanded into the choice of all orders of their members' unrolled forms is avoided: they are handled by multiset
   counting and are only admitted as the outermost group.
2. upa(model, version): XSD Structures 3.8.6 Unique Particle Attribution on the same automaton: a violation is a state
   with two outgoing positions that belong to DIFFERENT particles and can match one name.  XSD 1.1: an element particle
   competing with a wildcard is not a violation (the element wins).
3. edc(model): Element Declarations Consistent - same expanded name => same type label.
"""
from itertools import count


def ns_of(name):
    if name and name[0] == '{':
        return name[1:].split('}')[0]
    return ''


def _ns_in(ns, n):
    """does the namespace constraint admit namespace n ('' = absent)?  forms: '##any' | '##other:<tns>' |
    '##not:<a>|<b>...' (XSD 1.1 notNamespace; an empty item = absent) | tuple of namespaces"""
    if ns == '##any':
        return True
    if isinstance(ns, str) and ns.startswith('##other:'):
        return n != '' and n != ns[len('##other:'):]
    if isinstance(ns, str) and ns.startswith('##not:'):
        return n not in ns[len('##not:'):].split('|')
    return n in ns


def wild_allows(ns, name):
    return _ns_in(ns, ns_of(name))


def _wild_allows_old(ns, name):
    n = ns_of(name)
    if ns == '##any':
        return True
    if isinstance(ns, str) and ns.startswith('##other:'):
        return n != '' and n != ns[len('##other:'):]
    return n in ns


def wild_overlap(ns1, ns2):
    """do two namespace constraints share a namespace?  (each namespace holds infinitely many names)"""
    cands = {'', '\x00fresh'}
    for ns in (ns1, ns2):
        if isinstance(ns, str):
            if ns.startswith('##other:'):
                cands.add(ns[len('##other:'):])
            elif ns.startswith('##not:'):
                cands.update(ns[len('##not:'):].split('|'))
        else:
            cands.update(ns)
    return any(_ns_in(ns1, c) and _ns_in(ns2, c) for c in cands)


class Leaf:
    __slots__ = ('pid', 'kind', 'name', 'ns', 'type', 'subst')

    def __init__(self, pid, node, subst):
        self.pid = pid
        self.kind = node[0]
        if node[0] == 'e':
            self.name = node[1]
            self.type = node[4] if len(node) > 4 else None
            self.ns = None
            self.subst = frozenset([node[1]]) | frozenset(subst.get(node[1], ()))
        else:
            self.name = None
            self.ns = node[1]
            self.type = None
            self.subst = frozenset()

    def matches(self, name):
        if self.kind == 'e':
            return name in self.subst
        return wild_allows(self.ns, name)

    def overlaps(self, other):
        if self.kind == 'e' and other.kind == 'e':
            return bool(self.subst & other.subst)
        if self.kind == 'e':
            return any(wild_allows(other.ns, n) for n in self.subst)
        if other.kind == 'e':
            return any(wild_allows(self.ns, n) for n in other.subst)
        return wild_overlap(self.ns, other.ns)


# ---- unrolled regular expression over positions: ('sym', pos) ('cat', [..]) ('alt', [..]) ('opt', r) ('star', r) ('eps',)

class Automaton:
    def __init__(self, model, subst=None):
        self.subst = subst or {}
        self.leaves = {}        # pos -> Leaf
        self._pos = count(1)
        self._pid = count(1)
        self.top_all = None
        if model[0] == 'a':
            # outermost all-group: members are handled by counting
            self.top_all = (model, [(self._build(ch), ch) for ch in model[1]])
            self.regex = None
        else:
            self.regex = self._build(model)
            self.nullable, self.first, self.last, self.follow = self._glushkov(self.regex)

    def _build(self, node, pid=None):
        kind = node[0]
        mn, mx = node[2], node[3]
        mypid = next(self._pid)

        def one():
            if kind in ('e', 'w'):
                p = next(self._pos)
                self.leaves[p] = Leaf(mypid, node, self.subst)
                return ('sym', p)
            subs = [self._build(ch) for ch in node[1]]
            if kind == 's':
                return ('cat', subs)
            if kind == 'c':
                return ('alt', subs) if subs else ('alt', [])
            raise ValueError("'all' groups only as the outermost group")

        # _build of children allocates fresh particle ids per copy; particle identity must be shared between the
        # copies of one particle, so build one copy and clone it with fresh positions but identical pids
        proto = one()
        if mx == 0:
            return ('eps',)
        parts = [self._clone(proto) if i else proto for i in range(mn)]
        if mx is None:
            parts.append(('star', self._clone(proto) if parts else proto))
        else:
            tail = None
            for i in range(mx - mn):
                c = self._clone(proto) if (parts or i) else proto
                tail = ('opt', c if tail is None else ('cat', [c, tail]))
                # nested: c (c (c)?)?  -- built inside-out, so re-nest properly below
            if mx - mn > 0:
                # build nested optional chain explicitly
                copies = [self._clone(proto) for _ in range(mx - mn)]
                tail = None
                for c in reversed(copies):
                    tail = ('opt', c if tail is None else ('cat', [c, tail]))
                parts.append(tail)
        if not parts:
            return ('eps',)
        return parts[0] if len(parts) == 1 else ('cat', parts)

    def _clone(self, r):
        k = r[0]
        if k == 'sym':
            p = next(self._pos)
            self.leaves[p] = self.leaves[r[1]]
            return ('sym', p)
        if k in ('cat', 'alt'):
            return (k, [self._clone(x) for x in r[1]])
        if k in ('opt', 'star'):
            return (k, self._clone(r[1]))
        return r

    def _glushkov(self, r):
        follow = {}

        def go(r):
            k = r[0]
            if k == 'eps':
                return True, set(), set()
            if k == 'sym':
                follow.setdefault(r[1], set())
                return False, {r[1]}, {r[1]}
            if k == 'cat':
                nullable, first, last = True, set(), set()
                for x in r[1]:
                    n, f, l = go(x)
                    for p in last:
                        follow[p] |= f
                    if nullable:
                        first |= f
                    if n:
                        last = last | l
                    else:
                        last = set(l)
                    nullable = nullable and n
                return nullable, first, last
            if k == 'alt':
                nullable, first, last = False, set(), set()
                if not r[1]:
                    return False, set(), set()      # empty choice matches nothing
                for x in r[1]:
                    n, f, l = go(x)
                    nullable = nullable or n
                    first |= f
                    last |= l
                return nullable, first, last
            if k == 'opt':
                n, f, l = go(r[1])
                return True, f, l
            if k == 'star':
                n, f, l = go(r[1])
                for p in l:
                    follow[p] |= f
                return True, f, l
            raise ValueError(k)
        n, f, l = go(r)
        return n, f, l, follow

    # ---- language
    def step(self, cur, name, version='1.0'):
        """successor position set; XSD 1.1: when an element particle and a wildcard both match the item, the element
        particle wins (Structures 1.1, 3.8.4.1: competition is resolved in favour of the element declaration)"""
        nxt = set()
        for s in cur:
            succ = self.first if s == 0 else self.follow[s]
            for q in succ:
                if self.leaves[q].matches(name):
                    nxt.add(q)
        if version == '1.1' and any(self.leaves[q].kind == 'e' for q in nxt):
            nxt = {q for q in nxt if self.leaves[q].kind == 'e'}
        return nxt

    def accepting(self, cur):
        return any((s == 0 and self.nullable) or (s != 0 and s in self.last) for s in cur)

    def accepts(self, word, version='1.0'):
        if self.top_all is not None:
            return self._accepts_all(word)
        cur = {0}
        for name in word:
            cur = self.step(cur, name, version)
            if not cur:
                return False
        return self.accepting(cur)

    def accepts_open(self, word, mode, ns, version='1.1'):
        """XSD 1.1 Structures 3.4.4.2 (Element Sequence Locally Valid, Complex Content), open content: an item is left
        to the open-content wildcard only where it cannot extend the path in the model (interleave), resp. the model
        path is maximal and everything after it matches the wildcard (suffix)."""
        if self.top_all is not None:
            raise ValueError("open content over an all-group is outside the oracle")
        cur = {0}
        for i, name in enumerate(word):
            nxt = self.step(cur, name, version)
            if nxt:
                cur = nxt
                continue
            if mode == 'suffix':
                return self.accepting(cur) and all(wild_allows(ns, x) for x in word[i:])
            if not wild_allows(ns, name):
                return False
        return self.accepting(cur)

    def _accepts_all(self, word):
        model, members = self.top_all
        mn, mx = model[2], model[3]
        if not word:
            return mn == 0 or all(self._member_accepts(m, []) for m in members)
        # each member consumes a (possibly empty) set of word positions, contiguous or not (XSD 1.1 semantics of all:
        # any interleaving order of whole member occurrences); members here are leaves (elements/wildcards), so the
        # count of items attributed to each member must lie in its range.  Attribution: elements first, then wildcards.
        counts = [0] * len(members)
        for name in word:
            placed = False
            for pref in ('e', 'w'):
                for i, (r, node) in enumerate(members):
                    if node[0] != pref:
                        continue
                    leaf = Leaf(0, node, self.subst)
                    if leaf.matches(name) and (node[3] is None or counts[i] < node[3]):
                        counts[i] += 1
                        placed = True
                        break
                if placed:
                    break
            if not placed:
                return False
        return all(counts[i] >= node[2] for i, (r, node) in enumerate(members))

    def _member_accepts(self, m, word):
        r, node = m
        return node[2] == 0 and not word

    # ---- determinism
    def upa_violation(self, version='1.0'):
        """returns None or a description (state, pos1, pos2)"""
        if self.top_all is not None:
            model, members = self.top_all
            for i in range(len(members)):
                for j in range(i):
                    a, b = Leaf(i + 1, members[i][1], self.subst), Leaf(j + 1, members[j][1], self.subst)
                    if a.overlaps(b):
                        if version == '1.1' and a.kind != b.kind:
                            continue
                        return ('all', members[j][1], members[i][1])
            return None
        states = [(0, self.first)] + [(p, self.follow[p]) for p in sorted(self.follow)]
        for s, succ in states:
            succ = sorted(succ)
            for i in range(len(succ)):
                for j in range(i):
                    a, b = self.leaves[succ[i]], self.leaves[succ[j]]
                    if a.pid == b.pid:
                        continue
                    if a.overlaps(b):
                        if version == '1.1' and a.kind != b.kind:
                            continue
                        return (s, succ[j], succ[i])
        return None

    def edc_violation(self):
        seen = {}
        leaves = self.leaves.values() if self.top_all is None else [Leaf(0, m[1], self.subst) for m in self.top_all[1]]
        for lf in leaves:
            if lf.kind != 'e':
                continue
            if lf.name in seen and seen[lf.name] != lf.type:
                return (lf.name, seen[lf.name], lf.type)
            seen[lf.name] = lf.type
        return None


def accepts(model, word, subst=None, version='1.0'):
    return Automaton(model, subst).accepts(word, version)


def deterministic(model, version='1.0', subst=None):
    a = Automaton(model, subst)
    return a.upa_violation(version) is None and a.edc_violation() is None


def render(node):
    """compact text form, e.g. (a, b?){1,2}"""
    k = node[0]
    mn, mx = node[2], node[3]
    if (mn, mx) == (1, 1):
        occ = ''
    elif (mn, mx) == (0, 1):
        occ = '?'
    elif (mn, mx) == (0, None):
        occ = '*'
    elif (mn, mx) == (1, None):
        occ = '+'
    else:
        occ = '{%d,%s}' % (mn, 'inf' if mx is None else mx)
    if k == 'e':
        return node[1].split('}')[-1] + occ
    if k == 'w':
        return 'any[%s]' % (node[1] if isinstance(node[1], str) else ' '.join(x or '##local' for x in node[1])) + occ
    sep = {'s': ', ', 'c': ' | ', 'a': ' & '}[k]
    return '(' + sep.join(render(c) for c in node[1]) + ')' + occ


def _selftest():
    a, b, c = 'a', 'b', 'c'
    E = lambda n, mn=1, mx=1: ('e', n, mn, mx)      # noqa: E731
    m = ('s', [E(a), ('s', [E(b, 0, 1)], 0, 1)], 0, 1)
    assert accepts(m, []) and accepts(m, [a]) and accepts(m, [a, b]) and not accepts(m, [b]) and not accepts(m, [a, b, b])
    assert deterministic(m)
    # (a, c+, a*)+ is ambiguous: after c, 'a' is either the third particle or the first of a new iteration
    m2 = ('s', [E(a), E(c, 1, None), E(a, 0, None)], 1, None)
    assert not deterministic(m2) and accepts(m2, [a, c, a, c])
    # a?, a is ambiguous; a{2,2} is not; (a|b)* deterministic; (a|a) ambiguous
    assert not deterministic(('s', [E(a, 0, 1), E(a)], 1, 1))
    assert deterministic(('s', [E(a, 2, 2)], 1, 1)) and accepts(('s', [E(a, 2, 2)], 1, 1), [a, a]) and not accepts(('s', [E(a, 2, 2)], 1, 1), [a])
    assert deterministic(('c', [E(a), E(b)], 0, None)) and not deterministic(('c', [E(a), E(a)], 1, 1))
    # (a{0,2}){2,2} accepts 'a'
    assert accepts(('s', [E(a, 0, 2)], 2, 2), [a]) and accepts(('s', [E(a, 0, 2)], 2, 2), [a] * 4) and not accepts(('s', [E(a, 0, 2)], 2, 2), [a] * 5)
    # element vs wildcard: 1.0 violation, 1.1 fine; wildcard/wildcard always
    mw = ('s', [E(a, 0, 1), ('w', '##any', 1, 1)], 1, 1)
    assert not deterministic(mw, '1.0') and deterministic(mw, '1.1')
    assert not deterministic(('s', [('w', '##any', 0, 1), ('w', ('',), 1, 1)], 1, 1), '1.1')
    assert deterministic(('s', [('w', ('x',), 0, 1), ('w', ('',), 1, 1)], 1, 1), '1.0')
    # EDC
    assert not deterministic(('s', [('e', a, 1, 1, 'T1'), E(b), ('e', a, 1, 1, 'T2')], 1, 1))
    # all group
    al = ('a', [E(a), E(b, 0, 1)], 1, 1)
    assert accepts(al, [b, a]) and accepts(al, [a]) and not accepts(al, [b]) and not accepts(al, [a, a])
    assert render(m2) == '(a, c+, a*)+'
    assert wild_overlap('##not:tns', ('',)) and not wild_overlap('##not:tns|', ('',)) and wild_overlap('##not:', ('x',))
    assert wild_allows('##not:tns', 'u') and not wild_allows('##not:tns', '{tns}a') and not wild_allows('##not:', 'u')
    # 1.1 element wins over wildcard: (a | any*) : 'a a' is invalid (first a is the element, the choice is over)
    mc = ('c', [E(a), ('w', '##any', 0, None)], 1, 1)
    assert accepts(mc, [a, a], None, '1.0') and not accepts(mc, [a, a], None, '1.1') and accepts(mc, [b, a], None, '1.1')
    # open content: (a, (b, c)?) interleave any: 'a b' invalid (b extends the model path, c missing); 'b a' valid
    mo = ('s', [E(a), ('s', [E(b), E(c)], 0, 1)], 1, 1)
    au = Automaton(mo)
    assert not au.accepts_open([a, b], 'interleave', '##any') and au.accepts_open([b, a], 'interleave', '##any')
    assert au.accepts_open([a, c, c], 'suffix', '##any') and not au.accepts_open([c, a], 'suffix', '##any')


_selftest()
